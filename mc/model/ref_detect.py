"""Reference for the CSS codec: CSS 2.1 section 4.4 detection, @charset name rewriting, one-shot results.

Written from the specification table and the codec's documented contract, independent of
cssutils/codec.py.  Byte patterns (CSS 2.1 4.4, as far as the codec documents support):

    EF BB BF                      utf-8-sig   explicit (BOM)
    FF FE 00 00                   utf-32      explicit (BOM, little endian)
    FF FE                         utf-16      explicit (BOM, little endian)
    FE FF                         utf-16      explicit (BOM, big endian)
    00 00 FE FF                   utf-32      explicit (BOM, big endian)
    40 00 00 00                   utf-32-le   implicit ('@' in UTF-32LE)
    40 00 63 00                   utf-16-le   implicit ('@c' in UTF-16LE)
    00 00 00 40                   utf-32-be   implicit
    00 40                         utf-16-be   implicit
    @charset "NAME"               NAME        explicit (ASCII compatible rule at offset 0)
    anything else                 utf-8       implicit
"""
import codecs

PREFIX = '@charset "'
BPREFIX = PREFIX.encode('ascii')


def detect_final(data):
    """the answer for a complete input (final=True)"""
    if data[:3] == b'\xef\xbb\xbf':
        return ('utf-8-sig', True)
    if data[:4] == b'\xff\xfe\x00\x00':
        return ('utf-32', True)
    if data[:2] == b'\xff\xfe':
        return ('utf-16', True)
    if data[:2] == b'\xfe\xff':
        return ('utf-16', True)
    if data[:4] == b'\x00\x00\xfe\xff':
        return ('utf-32', True)
    if data[:4] == b'@\x00\x00\x00':
        return ('utf-32-le', False)
    if data[:4] == b'@\x00c\x00':
        return ('utf-16-le', False)
    if data[:4] == b'\x00\x00\x00@':
        return ('utf-32-be', False)
    if data[:2] == b'\x00@':
        return ('utf-16-be', False)
    if data.startswith(BPREFIX):
        end = data.find(b'"', len(BPREFIX))
        if end >= 0:
            return (''.join(chr(b) for b in data[len(BPREFIX):end]), True)
    return ('utf-8', False)


def norm(enc):
    return enc.replace('_', '-').lower()


def fix(text, enc):
    """text with the name in a leading @charset rule rewritten to enc (utf-8 for utf-8-sig)"""
    if norm(enc) == 'utf-8-sig':
        enc = 'utf-8'
    if text.startswith(PREFIX):
        end = text.find('"', len(PREFIX))
        if end >= 0:
            return PREFIX + enc + text[end:]
    return text


def text_charset(text):
    if text.startswith(PREFIX):
        end = text.find('"', len(PREFIX))
        if end >= 0:
            return text[len(PREFIX):end]
    return None


def encode(text, enc=None):
    """expected bytes of the one-shot encoder"""
    if enc is None:
        enc = text_charset(text) or 'utf-8'
    return fix(text, enc).encode(enc)


def decode(data, enc=None, force=True):
    """expected text of the one-shot decoder"""
    if enc is None or not force:
        d, explicit = detect_final(data)
        if enc is None or explicit:
            enc = d
    return fix(codecs.decode(data, enc), enc)
