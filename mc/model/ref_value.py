"""Independent reader and writer for the *spelling* of CSS property values (used by C18).

Written from the CSS 2.1 grammar (section 4.1.1 tokens, appendix G), not from the code under test:

    string   "([^\\n\\r\\f\\\\"]|\\\\{nl}|{escape})*"   and the same with '
    escape   \\\\[0-9a-fA-F]{1,6}(\\r\\n|[ \\t\\r\\n\\f])?  |  \\\\[^\\r\\n\\f0-9a-fA-F]
    url      url( {w} ( {string} | ([!#$%&*-\\[\\]-~]|{nonascii}|{escape})* ) {w} )
    num      [0-9]+|[0-9]*\\.[0-9]+       (here with an optional sign, as css3-syntax tokenises it)
    ident    -?{nmstart}{nmchar}*

What a string or URL *denotes* is its content after every escape is resolved: a hexadecimal escape is the code
point, `\\` + line break inside a string is nothing, `\\` + any other character is that character.

`components(text)` splits a value into components and separators; a separator is `space` (white space only),
`comma` or `slash` (with optional white space around it).
"""
import re

WS = ' \t\r\n\f'
HEX = '0123456789abcdefABCDEF'
NL = '\n\r\f'


class ScanError(ValueError):
    pass


# ----------------------------------------------------------------------------------------
# content <-> spelling


def unescape(s, in_string):
    """content of an escaped span; raises ScanError on a backslash that starts no escape"""
    out = []
    i, n = 0, len(s)
    while i < n:
        c = s[i]
        if c != '\\':
            out.append(c)
            i += 1
            continue
        if i + 1 >= n:
            raise ScanError('lone backslash at the end')
        d = s[i + 1]
        if d in HEX:
            k = i + 1
            while k < n and k - (i + 1) < 6 and s[k] in HEX:
                k += 1
            out.append(chr(int(s[i + 1:k], 16)))
            if s[k:k + 2] == '\r\n':
                k += 2
            elif k < n and s[k] in WS:
                k += 1
            i = k
        elif d in NL:
            if not in_string:
                raise ScanError('backslash + line break outside a string')
            i += 3 if s[i + 1:i + 3] == '\r\n' else 2
        else:
            out.append(d)
            i += 2
    return ''.join(out)


def quote(content, q):
    """the string token with delimiter q that denotes content, escaping only what CSS requires to be escaped:
    the delimiter, the backslash, and line breaks (as hexadecimal escapes terminated by one blank)"""
    out = [q]
    for c in content:
        if c == q or c == '\\':
            out.append('\\' + c)
        elif c in NL:
            out.append('\\%x ' % ord(c))
        else:
            out.append(c)
    out.append(q)
    return ''.join(out)


def _bare_ok_char(c):
    o = ord(c)
    return o >= 0x80 or c in '!#$%&' or (0x2A <= o <= 0x7E and c != '\\')


def url_bare_ok(content):
    """may the content be written between url( and ) as it is?"""
    return all(_bare_ok_char(c) for c in content)


def url_bare(content):
    """unquoted url() body denoting content: characters the grammar does not allow bare are escaped
    (white space as a hexadecimal escape - it would otherwise be stripped or end the token - everything else by
    a backslash)"""
    out = []
    for c in content:
        if _bare_ok_char(c):
            out.append(c)
        elif c in WS:
            out.append('\\%x ' % ord(c))
        else:
            out.append('\\' + c)
    return ''.join(out)


# ----------------------------------------------------------------------------------------
# scanner

_ESC = r'\\[0-9a-fA-F]{1,6}(?:\r\n|[ \t\r\n\f])?|\\[^\r\n\f0-9a-fA-F]'
_NONASCII = r'[\u0080-\U0010ffff]'
_NMSTART = rf'(?:[A-Za-z_]|{_NONASCII}|{_ESC})'
_NMCHAR = rf'(?:[A-Za-z0-9_-]|{_NONASCII}|{_ESC})'
_IDENT = rf'-?{_NMSTART}{_NMCHAR}*'
_STR1 = rf'"(?:[^\n\r\f\\"]|\\(?:\r\n|[\n\r\f])|{_ESC})*"'
_STR2 = rf"'(?:[^\n\r\f\\']|\\(?:\r\n|[\n\r\f])|{_ESC})*'"
_W = r'[ \t\r\n\f]*'
_URLCH = rf'(?:[!#$%&*-\[\]-~]|{_NONASCII}|{_ESC})'
_NUM = r'[+-]?(?:[0-9]*\.[0-9]+|[0-9]+)'

_TOKEN = re.compile(
    rf'''(?P<ws>[ \t\r\n\f]+)
    |(?P<url>[uU][rR][lL]\({_W}(?:(?P<urlstr>{_STR1}|{_STR2})|(?P<urlbare>{_URLCH}*)){_W}\))
    |(?P<str>{_STR1}|{_STR2})
    |(?P<num>{_NUM})(?P<unit>%|{_IDENT})?
    |(?P<func>{_IDENT})\(
    |(?P<ident>{_IDENT})
    |(?P<hash>\#{_NMCHAR}+)
    |(?P<op>[,/)])
    ''',
    re.X,
)
_NUMPARTS = re.compile(r'^([+-]?)([0-9]*)(?:\.([0-9]+))?$')


def _scan(text, pos, inside_function):
    """-> (items, pos); items are ('ws',) (',',) ('/',) or component tuples"""
    items = []
    n = len(text)
    while pos < n:
        m = _TOKEN.match(text, pos)
        if not m:
            raise ScanError(f'no token at offset {pos}: {text[pos:pos + 10]!r}')
        raw = m.group(0)
        if m.group('ws') is not None:
            items.append(('ws',))
        elif m.group('url') is not None:
            if m.group('urlstr') is not None:
                s = m.group('urlstr')
                items.append(('url', unescape(s[1:-1], True), raw))
            else:
                items.append(('url', unescape(m.group('urlbare'), False), raw))
        elif m.group('str') is not None:
            items.append(('str', unescape(raw[1:-1], True), raw))
        elif m.group('num') is not None:
            sign, i, f = _NUMPARTS.match(m.group('num')).groups()
            unit = m.group('unit') or ''
            if unit != '%':
                unit = unescape(unit, False)
            items.append(('num', sign, i, f or '', unit, raw))
        elif m.group('func') is not None:
            name = unescape(m.group('func'), False)
            inner, pos2 = _scan(text, m.end(), True)
            if pos2 > n or text[pos2 - 1:pos2] != ')':
                raise ScanError('function not closed')
            comps, seps = _group(inner)
            items.append(('func', name, comps, seps, text[pos:pos2]))
            pos = pos2
            continue
        elif m.group('ident') is not None:
            items.append(('ident', unescape(raw, False), raw))
        elif m.group('hash') is not None:
            items.append(('hash', unescape(raw, False), raw))
        else:
            if raw == ')':
                if not inside_function:
                    raise ScanError('unbalanced )')
                return items, m.end()
            items.append((raw,))
        pos = m.end()
    if inside_function:
        raise ScanError('function not closed')
    return items, pos


def _group(items):
    """items -> (components, separators); white space at both ends is insignificant"""
    while items and items[0] == ('ws',):
        items = items[1:]
    while items and items[-1] == ('ws',):
        items = items[:-1]
    comps, seps = [], []
    pending = None  # separator collected since the last component
    for it in items:
        if it == ('ws',):
            if pending is None:
                pending = 'space'
        elif it in ((',',), ('/',)):
            if not comps or pending in ('comma', 'slash'):
                raise ScanError('operator without a term before it')
            pending = 'comma' if it == (',',) else 'slash'
        else:
            if comps:
                if pending is None:
                    pending = 'none'  # two terms not separated by anything (e.g. "a""b")
                seps.append(pending)
            comps.append(it)
            pending = None
    if pending in ('comma', 'slash'):
        raise ScanError('operator without a term after it')
    return comps, seps


def components(text):
    """(components, separators) of a property value; raises ScanError if the text is not one"""
    items, _ = _scan(text, 0, False)
    comps, seps = _group(items)
    if not comps:
        raise ScanError('no component')
    return comps, seps
