"""Reference model for C16: abstract selectors, their spellings, their specificity by construction,
and the reference selector list.

Written from the CSS3 selectors grammar and the statement of C16, not from cssutils:

* an abstract selector is a JSON-able list  [compound, combinator, compound, ...]  where a compound
  is a list of simple-selector *keys* (the canonical spelling of the simple selector, looked up in
  SIMPLE) and a combinator is one of ' ', '>', '+', '~';
* `specificity(sel)` = (0, #id, #class + #attribute, #type + #pseudo-element), counted over every
  compound part including the argument of :not(); pseudo-classes and the universal selector count 0;
* every abstract selector has *decision sites* (grammar S* gaps, case of case-insensitive words, escapes
  of name characters, quote style) with choice 0 = canonical; `spell(sel, dev)` renders the spelling with
  the choices `dev = {site index: choice index}`; `variants(sel, k)` enumerates all dev with <= k sites
  off default, simplest first.
"""
import itertools

NS = {'p': 'http://p'}

# --------------------------------------------------------------------------------------------
# spelling choices.  (text, label); label = the class of the choice used in finding signatures

GAP = [  # a grammar `S*` gap
    ('', 'none'),
    (' ', 'ws'),
    ('\n', 'ws'),
    ('\t\r\n\f ', 'ws'),
    ('/*c*/', 'comment'),
    (' /*c*/ ', 'comment+ws'),
    ('/*c*/ ', 'comment+ws'),
    (' /*c*/', 'comment+ws'),
]
DESC = [  # the descendant combinator `S+`: white space is mandatory, a comment may only accompany it
    (' ', 'ws'),
    ('\n', 'ws'),
    ('\t\r\n\f ', 'ws'),
    (' /*c*/ ', 'comment+ws'),
    ('/*c*/ ', 'comment+ws'),
    (' /*c*/', 'comment+ws'),
]
ANB = [('+', 'none'), (' + ', 'ws')]  # white space around the sign of an+b
CASES = ['lower', 'UPPER', 'MiXed']
QUOTES = [('"', 'double'), ("'", 'single')]
NONHEX = 'ghijklmnopqrstuvwxyz'


def _mixed(n):
    out, up = [], True
    for ch in n:
        if ch.isalpha():
            out.append(ch.upper() if up else ch.lower())
            up = not up
        else:
            out.append(ch)
    return ''.join(out)


def _esc_labels(base):
    labels = ['plain', 'hex', 'hex']
    if any(ch in NONHEX for ch in base.lower()):
        labels.append('simple')
    return labels


def _escape(n, choice):
    if choice == 0:
        return n
    if choice == 1:  # \HH + terminating blank
        return '\\%x ' % ord(n[0]) + n[1:]
    if choice == 2:  # six digits; one following white-space character still belongs to the escape, so it is always supplied
        return '\\%06x ' % ord(n[0]) + n[1:]
    for i, ch in enumerate(n):  # simple escape of the first letter that is no hex digit
        if ch.lower() in NONHEX:
            return n[:i] + '\\' + ch + n[i + 1:]
    raise ValueError(n)


class _Walk:
    """one left-to-right rendering pass; site indices are positions in this pass"""

    def __init__(self, dev=None):
        self.dev = dev or {}
        self.sites = []  # (kind, [label per choice])
        self.out = []

    def choose(self, kind, labels):
        i = len(self.sites)
        self.sites.append((kind, labels))
        return self.dev.get(i, 0)

    def lit(self, s):
        self.out.append(s)

    def gap(self, kind, choices=GAP):
        c = self.choose(kind, [lab for _, lab in choices])
        self.out.append(choices[c][0])

    def name(self, base, where, ci=False):
        n = base
        if ci:
            c = self.choose('case:' + where, CASES)
            n = (n, n.upper(), _mixed(n))[c]
        e = self.choose('esc:' + where, _esc_labels(base))
        self.out.append(_escape(n, e))


# --------------------------------------------------------------------------------------------
# simple selectors


class Simple:
    def __init__(self, kind, spec, **kw):
        self.kind = kind  # short class name used in signatures
        self.spec = spec  # (ids, classes+attributes, types+pseudo-elements)
        self.__dict__.update(kw)
        w = _Walk()
        self.render(w)
        self.key = ''.join(w.out)

    is_pe = False
    is_type = False

    def render(self, w):
        raise NotImplementedError


class Type(Simple):
    is_type = True

    def __init__(self, prefix, name):
        kind = ('universal' if name == '*' else 'type') + {None: '', 'p': ':ns', '*': ':anyns', '': ':nons'}[prefix]
        super().__init__(kind, (0, 0, 0 if name == '*' else 1), prefix=prefix, name=name)

    def render(self, w):
        if self.prefix == 'p':
            w.name('p', 'prefix')
            w.lit('|')
        elif self.prefix is not None:
            w.lit(self.prefix + '|')
        if self.name == '*':
            w.lit('*')
        else:
            w.name(self.name, 'type')


class Id(Simple):
    def __init__(self, name):
        super().__init__('id', (1, 0, 0), name=name)

    def render(self, w):
        w.lit('#')
        w.name(self.name, 'id')


class Class(Simple):
    def __init__(self, name):
        super().__init__('class', (0, 1, 0), name=name)

    def render(self, w):
        w.lit('.')
        w.name(self.name, 'class')


class Attr(Simple):
    def __init__(self, name, op=None, value=None, quoted=False, prefix=None):
        kind = 'attr[%s%s]' % (op or '', ('"' if quoted else 'v') if op else '') + (':ns' if prefix else '')
        super().__init__(kind, (0, 1, 0), name=name, op=op, value=value, quoted=quoted, prefix=prefix)

    def render(self, w):
        w.lit('[')
        w.gap('gap:attr')
        if self.prefix:
            w.name(self.prefix, 'prefix')
            w.lit('|')
        w.name(self.name, 'attr')
        w.gap('gap:attr')
        if self.op:
            w.lit(self.op)
            w.gap('gap:attr')
            if self.quoted:
                q = QUOTES[w.choose('quote', [lab for _, lab in QUOTES])][0]
                w.lit(q + self.value + q)
            else:
                w.lit(self.value)
            w.gap('gap:attr')
        w.lit(']')


class PseudoClass(Simple):
    def __init__(self, name, arg=None):
        super().__init__('pclass' + (':func' if arg else ''), (0, 0, 0), name=name, arg=arg)

    def render(self, w):
        w.lit(':')
        w.name(self.name, 'pseudo', ci=True)
        if self.arg:
            w.lit('(')
            w.gap('gap:func')
            if self.arg == 'an+b':
                w.lit('2n')
                w.lit(ANB[w.choose('gap:an+b', [lab for _, lab in ANB])][0])
                w.lit('1')
            else:
                w.lit(self.arg)
            w.gap('gap:func')
            w.lit(')')


class PseudoElement(Simple):
    is_pe = True

    def __init__(self, name, colons, arg=None):
        super().__init__('pelem:%dcolon' % colons + (':func' if arg else ''), (0, 0, 1), name=name, colons=colons, arg=arg)

    def render(self, w):
        w.lit(':' * self.colons)
        w.name(self.name, 'pseudo', ci=True)
        if self.arg:
            # a pseudo-element with an argument (::slotted(b), ::part(b)): counted like any pseudo-element
            w.lit('(')
            w.gap('gap:func')
            w.lit(self.arg)
            w.gap('gap:func')
            w.lit(')')


class Not(Simple):
    def __init__(self, inner):
        super().__init__('not(%s)' % inner.kind, inner.spec, inner=inner)

    def render(self, w):
        w.lit(':')
        w.name('not', 'not', ci=True)
        w.lit('(')
        w.gap('gap:not')
        self.inner.render(w)
        w.gap('gap:not')
        w.lit(')')


OPS = ['=', '~=', '|=', '^=', '$=', '*=']
TYPE_SELECTORS = [Type(None, 'a'), Type('p', 'a'), Type('*', 'a'), Type('', 'a'), Type(None, '*'), Type('p', '*')]
ATTRS = (
    [Attr('b')]
    + [Attr('b', op, 'v', quoted) for op in OPS for quoted in (False, True)]
    + [Attr('b', prefix='p')]
    # quoted values that read like selector syntax: inside the quotes nothing counts and nothing ends
    + [Attr('b', '=', '[', True), Attr('b', '~=', '.c#d, e>f', True)]
)
PSEUDO_CLASSES = [PseudoClass('hover'), PseudoClass('nth-child', 'an+b'), PseudoClass('lang', 'en')]
PSEUDO_ELEMENTS = [PseudoElement('before', 2), PseudoElement('first-line', 1), PseudoElement('selection', 2), PseudoElement('slotted', 2, 'b')]
PLAIN = [Id('i'), Id('aabbcc'), Class('c')] + ATTRS + PSEUDO_CLASSES  # ('#aabbcc': an id, not a colour to be shortened)
NEGATIONS = [Not(x) for x in TYPE_SELECTORS + PLAIN]  # the non-negation subset; pseudo-elements may not be negated

SIMPLE = {s.key: s for s in TYPE_SELECTORS + PLAIN + PSEUDO_ELEMENTS + NEGATIONS}
assert len(SIMPLE) == len(TYPE_SELECTORS) + len(PLAIN) + len(PSEUDO_ELEMENTS) + len(NEGATIONS)

COMBINATORS = [' ', '>', '+', '~']


# --------------------------------------------------------------------------------------------
# selectors


def valid(sel):
    """is this abstract selector generated by the CSS3 grammar (with the prose restrictions on pseudo-elements)?"""
    if not sel or len(sel) % 2 == 0:
        return False
    for i, part in enumerate(sel):
        if i % 2:
            if part not in COMBINATORS:
                return False
            continue
        if not part:
            return False
        for j, key in enumerate(part):
            s = SIMPLE.get(key)
            if s is None:
                return False
            if s.is_type and j != 0:
                return False
            if s.is_pe and (j != len(part) - 1 or i != len(sel) - 1):
                return False
    return True


def specificity(sel):
    b = c = d = 0
    for comp in sel[::2]:
        for key in comp:
            sb, sc, sd = SIMPLE[key].spec
            b, c, d = b + sb, c + sc, d + sd
    return (0, b, c, d)


def kinds(sel):
    """sorted list of the kinds of simple selectors / combinators in the selector (for signatures)"""
    out = set()
    for i, part in enumerate(sel):
        if i % 2:
            out.add('comb[%s]' % ('desc' if part == ' ' else part))
        else:
            out.update(SIMPLE[k].kind for k in part)
    if len(out) > 1:
        out.discard('universal')  # the neutral element a minimised witness is padded with
    return sorted(out)


def _walk(sel, dev=None):
    w = _Walk(dev)
    w.gap('gap:edge')
    for i, part in enumerate(sel):
        if i % 2:
            if part == ' ':
                w.gap('gap:desc', DESC)
            else:
                w.gap('gap:comb')
                w.lit(part)
                w.gap('gap:comb')
        else:
            for key in part:
                SIMPLE[key].render(w)
    w.gap('gap:edge')
    return w


def sites(sel):
    """[(kind, [label of choice 0, label of choice 1, ...]), ...] in rendering order"""
    return _walk(sel).sites


def spell(sel, dev=None):
    if dev and not isinstance(dev, dict):
        dev = {int(i): int(c) for i, c in dev}
    return ''.join(_walk(sel, dev).out)


def canonical(sel):
    return spell(sel)


def variants(sel, k):
    """all deviation sets [(site, choice), ...] with <= k sites off default, simplest first"""
    st = sites(sel)
    yield ()
    for n in range(1, k + 1):
        for idx in itertools.combinations(range(len(st)), n):
            for choice in itertools.product(*[range(1, len(st[i][1])) for i in idx]):
                yield tuple(zip(idx, choice))


def count_variants(sel, k):
    alts = [len(labels) - 1 for _, labels in sites(sel)]
    total = 1
    if k >= 1:
        total += sum(alts)
    if k >= 2:
        s1 = sum(alts)
        total += (s1 * s1 - sum(a * a for a in alts)) // 2
    return total


def site_label(sel, site, choice):
    """`kind` or `kind=label` of one deviation, the unit signatures are built from"""
    kind, labels = sites(sel)[site]
    if kind.startswith('case:') or kind == 'quote':
        return kind
    return '%s=%s' % (kind, labels[choice])


# --------------------------------------------------------------------------------------------
# reference selector list


class RefSelectorList:
    """ordered list of selector identities.

    * append of a valid selector: every entry with the same identity is removed, the new one goes last;
    * replace entry i by a valid selector (duplicates are *not* removed, as the class documents);
    * set from a list text: replaces everything, order kept, duplicates kept - unless the text is empty,
      has an empty member or an invalid member: then nothing changes;
    * anything invalid changes nothing.
    """

    def __init__(self, entries=()):
        self.entries = list(entries)

    def append(self, ident):
        if ident is None:
            return False
        self.entries = [e for e in self.entries if e != ident] + [ident]
        return True

    def replace(self, i, ident):
        if ident is None or not -len(self.entries) <= i < len(self.entries):  # (a negative index counts from the end)
            return False
        self.entries[i] = ident
        return True

    def set_text(self, idents):
        if not idents or any(i is None for i in idents):
            return False
        self.entries = list(idents)
        return True
