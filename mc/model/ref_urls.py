"""Reference model for C19: URL enumeration of an abstract sheet and the expansion of a virtual
file system of sheets into the expected flat rule list.

Written from the property statement, RFC 3986 reference resolution (urllib.parse.urljoin) and
the CSS cascade rules (CSS 2.1 6.3: an imported sheet behaves as if its rules were written at
the place of the @import rule; a media list on the @import restricts the imported rules to
those media).  Nothing here looks at the code under test.

Abstract sheet (JSON-able):
    {'charset': None | 'utf-8',
     'imports': [[href, form, media], ...]      form 's' = string, 'u' = url(), 'q' = url("")
     'rules':   [rule, ...]}
rule:
    ['style', selector, decls]
    ['media', mediatext, [rule, ...]]
    ['page', selector, decls, [[margin-name, decls], ...]]
    ['font-face', decls]
    ['namespace', prefix, uri]
decls: [[name, parts], ...];  parts: [['u', url] | ['q', url] | ['t', css-text] | [',']]
    'u' is spelled url(x), 'q' is spelled url("x"); both denote the URL x.
A virtual file system is {absolute url: abstract sheet}; a URL that is no key is unavailable.
"""
import urllib.parse

urljoin = urllib.parse.urljoin


# ----------------------------------------------------------------------------------------
# canonical spelling


def _q(s):
    return '"' + s.replace('\\', '\\\\').replace('"', '\\"') + '"'


def render_parts(parts):
    out = []
    for p in parts:
        if p[0] == 'u':
            out.append(f'url({p[1]})')
        elif p[0] == 'q':
            out.append(f'url({_q(p[1])})')
        elif p[0] == ',':
            out[-1] += ','
        else:
            out.append(p[1])
    return ' '.join(out)


def render_decls(decls):
    return ';'.join(f'{d[0]}:{render_parts(d[1])}' for d in decls)


def render_rule(r):
    k = r[0]
    if k == 'style':
        return f'{r[1]}{{{render_decls(r[2])}}}'
    if k == 'media':
        return f'@media {r[1]}{{' + ' '.join(render_rule(x) for x in r[2]) + '}'
    if k == 'page':
        inner = render_decls(r[2])
        for name, d in r[3]:
            inner += (';' if inner and not inner.endswith('}') else '') + f'{name}{{{render_decls(d)}}}'
        return f'@page{" " + r[1] if r[1] else ""}{{{inner}}}'
    if k == 'font-face':
        return f'@font-face{{{render_decls(r[1])}}}'
    if k == 'namespace':
        return f'@namespace {r[1] + " " if r[1] else ""}{_q(r[2])};'
    raise ValueError(k)


def render_import(imp):
    href, form, media = imp
    target = _q(href) if form == 's' else (f'url({href})' if form == 'u' else f'url({_q(href)})')
    return f'@import {target}{" " + media if media else ""};'


def render_sheet(sheet):
    lines = []
    if sheet.get('charset'):
        lines.append(f'@charset {_q(sheet["charset"])};')
    c = ['/*c*/'] if sheet.get('comments') else []
    for i in sheet.get('imports', []):
        lines += c + [render_import(i)]
    # @namespace must precede every other rule: the generator only builds sheets that respect this
    for r in sheet.get('rules', []):
        lines += c + [render_rule(r)]
    return '\n'.join(lines + c)


# ----------------------------------------------------------------------------------------
# URL enumeration (part 1): imports first, then every url() in document order


def decl_urls(decls):
    return [p[1] for d in decls for p in d[1] if p[0] in ('u', 'q')]


def rule_urls(r):
    k = r[0]
    if k == 'style':
        return decl_urls(r[2])
    if k == 'media':
        return [u for x in r[2] for u in rule_urls(x)]
    if k == 'page':
        # document order of the canonical spelling: the page's own declarations, then its margin boxes
        return decl_urls(r[2]) + [u for _, d in r[3] for u in decl_urls(d)]
    if k == 'font-face':
        return decl_urls(r[1])
    return []


def url_list(sheet, imports=True):
    out = [i[0] for i in sheet.get('imports', [])] if imports else []
    for r in sheet.get('rules', []):
        out += rule_urls(r)
    return out


# ----------------------------------------------------------------------------------------
# expected projection of a rule (same shape as checks/c19.proj_rule), URLs mapped by `urlmap`


def masked_parts(parts):
    out = []
    for p in parts:
        if p[0] in ('u', 'q'):
            out.append('url(#)')
        elif p[0] == ',':
            out[-1] += ','
        else:
            out.append(p[1])
    return ' '.join(out)


def proj_decls(decls, urlmap):
    out = []
    for d in decls:
        items = []
        for p in d[1]:
            if p[0] in ('u', 'q'):
                items.append(['u', urlmap(p[1])])
            elif p[0] == 't':
                items.append(['t', p[1]])
        out.append([d[0], items, masked_parts(d[1])])
    return out


def proj_rule(r, urlmap):
    k = r[0]
    if k == 'style':
        return ['style', r[1], proj_decls(r[2], urlmap)]
    if k == 'media':
        return ['media', r[1], [proj_rule(x, urlmap) for x in r[2]]]
    if k == 'page':
        return ['page', r[1], proj_decls(r[2], urlmap), [[n, proj_decls(d, urlmap)] for n, d in r[3]]]
    if k == 'font-face':
        return ['font-face', proj_decls(r[1], urlmap)]
    if k == 'namespace':
        return ['namespace', r[1], r[2]]
    raise ValueError(k)


# ----------------------------------------------------------------------------------------
# flattening (part 2)


def is_absolute(url):
    """has a scheme: resolves to itself from anywhere"""
    return bool(urllib.parse.urlsplit(url).scheme)


def flatten(vfs, top):
    """Expected flat sheet of the sheet at `top`.

    Returns {'imports': [[absolute target, media], ...]   @import rules that must be kept, in cascade order
             'namespaces': [[prefix, uri], ...]          in cascade order, identical declarations once
             'body': [projected rule, ...]}               every other rule, in cascade order, url = absolute URL
    The three lists are separate because CSS itself fixes their relative order (@import before
    @namespace before everything else); inside each list the order is the cascade order.
    """
    nested = set()
    kept, ns, body = _expand(vfs, top, nested, top)
    seen, ns1 = set(), []
    for n in ns:
        if tuple(n) not in seen:
            seen.add(tuple(n))
            ns1.append(n)
    # 'kept_nested': targets of @import rules that have to be kept inside an imported sheet (whether or not an
    # enclosing @import is kept as a whole later) - only used to name findings, never to judge
    return {'imports': kept, 'namespaces': ns1, 'body': body, 'kept_nested': sorted(nested)}


def _expand(vfs, url, nested, top):
    sheet = vfs[url]
    kept, ns, body = [], [], []
    for href, _form, media in sheet.get('imports', []):
        target = urljoin(url, href)
        if target not in vfs:
            # unavailable: the @import stays, still pointing at the same absolute location
            kept.append([target, media or 'all'])
            if url != top:
                nested.add(target)
            continue
        k, n, b = _expand(vfs, target, nested, top)
        if media:
            if k or n or any(r[0] != 'style' for r in b):
                # wrapping the group in @media would not be valid CSS 2.1 (only rule sets may be nested in @media)
                kept.append([target, media])
                if url != top:
                    nested.add(target)
                continue
            body.append(['media', media, b])
        else:
            kept += k
            ns += n
            body += b
    for r in sheet.get('rules', []):
        if r[0] == 'namespace':
            ns.append([r[1], r[2]])
        else:
            body.append(proj_rule(r, lambda u, base=url: urljoin(base, u)))
    return kept, ns, body


def targets(vfs, top):
    """(available, missing): absolute URLs of all @import targets reachable from `top`, in load order.
    Every sheet that is available is loaded when its @import rule is parsed, whether or not the
    rule is later merged, wrapped or kept."""
    avail, missing = [], []

    def walk(url):
        for href, _f, _m in vfs[url].get('imports', []):
            t = urljoin(url, href)
            if t in vfs:
                avail.append(t)
                walk(t)
            else:
                missing.append(t)

    walk(top)
    return avail, missing


def url_diff(expected_abs, got_abs):
    """which component of the resolved URL differs (symptom class for signatures)"""
    e, g = urllib.parse.urlsplit(expected_abs), urllib.parse.urlsplit(got_abs)
    if (e.scheme, e.netloc) != (g.scheme, g.netloc):
        return 'host'
    if e.path != g.path:
        return 'path'
    if (e.query, e.fragment) != (g.query, g.fragment):
        return 'query-fragment'
    return 'none'
