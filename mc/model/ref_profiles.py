"""Reference model of the validation-profile registry (C14), written from the documentation.

What the documentation of `cssutils.profiles.Profiles` says, and nothing else:

* a profile is a name, a dictionary ``{property name: pattern | function}`` and optional macros;
  a pattern is a regular expression that "may use macros defined in given ``macros`` or the
  standard macros" (``_TOKEN_MACROS``, ``_MACROS``), written ``{macro-name}``;
* macros are one environment for the whole registry: "If you want to redefine any of these macros
  do this in your custom macros", and removing a profile with custom macros resets "all remaining
  profiles ... to reflect the macro changes".  Hence: environment = standard macros, updated with
  the macros of every *currently registered* profile in the order of registration (a later
  registration shadows an earlier one);
* ``validate(name, value)``: "if the value is valid for the given property name in any profile";
* ``validateWithProfile`` -> ``valid, matching, profiles``: valid as above, ``matching`` iff it is
  valid in (one of) the default profiles, ``profiles`` the profile for which it is valid, or, when
  not valid, the (sorted) profiles that define the name; unknown names give ``(False, False, [])``;
* ``profiles``: "names of all profiles in order as defined"; ``knownNames``: "all known property
  names of all profiles"; ``propertiesByProfile()``: property names, sorted, by sorted profile.

The model has no state and no history: it is a function of the list of registered definitions.
Patterns are expanded here by plain textual substitution and compiled with `re` directly; nothing
of the registry code under test is executed (only its *data*: the definition dictionaries).
"""
import re

_MACRO = re.compile(r'\{([a-z][a-z0-9-]*)\}')
_COMPILED = {}
_EXPANDED = {}


def standard_macros(Profiles):
    env = dict(Profiles._TOKEN_MACROS)
    env.update(Profiles._MACROS)
    return env


def builtin_definitions(mod):
    """The nine predefined profiles (name, properties, macros) in the documented order.  Data only."""
    P = mod.Profiles
    order = [
        P.CSS_LEVEL_2,
        P.CSS3_BACKGROUNDS_AND_BORDERS,
        P.CSS3_BASIC_USER_INTERFACE,
        P.CSS3_BOX,
        P.CSS3_COLOR,
        P.CSS3_FONTS,
        P.CSS3_FONT_FACE,
        P.CSS3_PAGED_MEDIA,
        P.CSS3_TEXT,
    ]
    out = []
    for name in order:
        # the @font-face profile shares the macros of the fonts module
        mname = P.CSS3_FONTS if name == P.CSS3_FONT_FACE else name
        out.append((name, dict(mod.properties[name]), dict(mod.macros[mname])))
    return out


def environment(standard, registered):
    env = dict(standard)
    for _name, _props, macros in registered:
        env.update(macros or {})
    return env


def expand(pattern, env, envkey=None):
    k = (pattern, envkey)
    if envkey is not None and k in _EXPANDED:
        return _EXPANDED[k]
    out = pattern
    for _ in range(64):
        if not _MACRO.search(out):
            break
        out = _MACRO.sub(lambda m: '(?:%s)' % env[m.group(1)], out)
    else:
        raise ValueError('macro expansion does not terminate: %r' % pattern)
    if envkey is not None:
        _EXPANDED[k] = out
    return out


def _matches(expanded, value):
    rx = _COMPILED.get(expanded)
    if rx is None:
        # a value is one CSS value: the whole of it has to match; CSS keywords are case-insensitive
        rx = _COMPILED[expanded] = re.compile('^(?:%s)$' % expanded, re.I)
    return rx.match(value) is not None


class Registry:
    """The registry as a pure function of its ordered contents."""

    def __init__(self, standard, registered):
        self.registered = [(n, p, m or {}) for n, p, m in registered]
        self.env = environment(standard, self.registered)
        self.envkey = hash(tuple(sorted(self.env.items())))
        self._cache = {}

    # -- names -------------------------------------------------------------------------
    def profiles(self):
        return [n for n, _, _ in self.registered]

    def known_names(self):
        s = set()
        for _, props, _ in self.registered:
            s.update(props)
        return s

    def properties_by_profile(self):
        out = []
        for n, props, _ in sorted(self.registered, key=lambda t: t[0]):
            out.extend(sorted(props))
        return out

    def defining(self, name):
        return [n for n, props, _ in self.registered if name in props]

    # -- verdicts ----------------------------------------------------------------------
    def accepts(self, profile, name, value):
        k = (profile, name, value)
        if k in self._cache:
            return self._cache[k]
        r = False
        for n, props, _ in self.registered:
            if n == profile and name in props:
                d = props[name]
                if callable(d):
                    try:
                        r = bool(d(value))
                    except Exception:
                        r = False  # a validation function that raises does not accept (the error is the library's to report)
                else:
                    r = _matches(expand(d, self.env, self.envkey), value)
                break
        self._cache[k] = r
        return r

    def accepting(self, name, value):
        return [n for n in self.defining(name) if self.accepts(n, name, value)]

    def valid(self, name, value):
        return bool(self.accepting(name, value))

    def with_profile(self, name, value, defaults=None):
        """-> (valid, matching, acceptable values of the third component)

        `defaults`: None/empty = all registered profiles.  Names in `defaults` that are not registered
        cannot accept anything.  When valid, the third component must name one accepting profile (one
        of the default ones if matching); when not valid it is the sorted list of defining profiles.
        """
        acc = self.accepting(name, value)
        if not acc:
            return False, False, [sorted(self.defining(name))]
        eff = self.profiles() if not defaults else [d for d in defaults if d in self.profiles()]
        inside = [n for n in acc if n in eff]
        if inside:
            return True, True, [[n] for n in inside]
        return True, False, [[n] for n in acc]
