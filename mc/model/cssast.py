"""Abstract stylesheets with *decision sites*, their canonical spelling, all spellings within a
deviation bound, and the projection each one must have (DESIGN 2.3).

A node is `Node(pieces, expected)`: `pieces` is a flat list of literal strings and Site objects,
`expected` the neutral projection (`mc.model.proj`) the DOM must have for *every* spelling.

Sites
  Gap('O')   grammar has S* here and the neighbouring tokens cannot fuse: default '' ; variants
             ' ', '\\n', '\\t\\r\\n\\f ', '/*c*/', ' /*c*/ '
  Gap('R')   white space is mandatory (S+): default ' ' ; variants '\\n', '\\t\\r\\n\\f ', ' /*c*/ ', '/*c*/ ', ' /*c*/'
             (a comment never replaces the white space: `a/**/b` is not `a b`)
  Gap(.., comment=False)  same without the comment variants (inside tokens such as url( ))
  Word(text) a word CSS defines as case-insensitive: lower / UPPER / MiXeD, and - if esc - its first
             character written as `\\HH ` and `\\0000HH`, and a non-hex letter as simple escape `\\c`
  Name(text) a case-sensitive name (type, class): variants with the first character as hex escape
  Str(text)  a string: "..." or '...'
  Mark(tag)  zero-width marker (used by C04 to find where a construct ends)
"""
import itertools


class Site:
    choices = ()

    def spell(self, c):
        return self.choices[c]

    kind = 'site'


class Gap(Site):
    OPT = ['', ' ', '\n', '\t\r\n\f ', '/*c*/', ' /*c*/ ']
    REQ = [' ', '\n', '\t\r\n\f ', ' /*c*/ ', '/*c*/ ', ' /*c*/']
    # between two components of a value a comment alone separates as well (both are tokens of their own)
    VAL = REQ + ['/*c*/']

    def __init__(self, k, comment=True):
        self.k = k
        base = self.OPT if k == 'O' else self.VAL if k == 'V' else self.REQ
        self.choices = base if comment else [c for c in base if '/*' not in c]
        self.kind = 'gap' + k

    def describe(self, c):
        s = self.choices[c]
        return ('comment' if '/*' in s else 'space') + ':' + repr(s)


def _mixed(t):
    out, up = [], True
    for ch in t:
        if ch.isalpha():
            out.append(ch.upper() if up else ch.lower())
            up = not up
        else:
            out.append(ch)
    return ''.join(out)


HEXD = set('0123456789abcdefABCDEF')


class Word(Site):
    def __init__(self, text, prefix='', esc=True, case=True, simple=True, role=None):
        self.text = text
        self.role = role
        ch = [prefix + text]
        self.labels = ['plain']
        if case and text.upper() != text:
            ch.append(prefix + text.upper())
            self.labels.append('case:upper')
            if _mixed(text) not in (text, text.upper()):
                ch.append(prefix + _mixed(text))
                self.labels.append('case:mixed')
        if esc and text and text[0].isalpha():
            ch.append(prefix + '\\%x ' % ord(text[0]) + text[1:])
            self.labels.append('escape:hex')
            if len(text) > 1:  # a following blank would be eaten as the terminator of the escape
                ch.append(prefix + '\\%06x' % ord(text[0]) + text[1:])
                self.labels.append('escape:hex6')
            if simple:
                for i, c in enumerate(text):
                    if c.isalpha() and c not in HEXD:
                        ch.append(prefix + text[:i] + '\\' + c + text[i + 1:])
                        self.labels.append('escape:simple')
                        break
        self.choices = ch
        self.kind = 'word'

    def describe(self, c):
        return self.labels[c] + ':' + (self.role or self.text)


class Name(Word):
    def __init__(self, text, prefix=''):
        super().__init__(text, prefix=prefix, esc=True, case=False, simple=False)
        self.kind = 'name'


class Str(Site):
    def __init__(self, content):
        assert '"' not in content and "'" not in content and '\\' not in content
        self.choices = ['"%s"' % content, "'%s'" % content]
        self.kind = 'str'

    def describe(self, c):
        return 'quote:' + self.choices[c][0]


class Mark:
    def __init__(self, tag):
        self.tag = tag


O = lambda: Gap('O')  # noqa: E731
R = lambda: Gap('R')  # noqa: E731
V = lambda: Gap('V')  # noqa: E731


class Node:
    def __init__(self, pieces, expected, **kw):
        self.pieces = list(pieces)
        self.expected = expected
        self.__dict__.update(kw)


# ----------------------------------------------------------------------------------------
# rendering and spelling enumeration


def site_indexes(pieces):
    return [i for i, p in enumerate(pieces) if isinstance(p, Site)]


def render(pieces, dev=None, marks=None):
    dev = dev or {}
    out = []
    pos = 0
    for i, p in enumerate(pieces):
        if isinstance(p, Mark):
            if marks is not None:
                marks.append((p.tag, pos))
            continue
        s = p.spell(dev.get(i, 0)) if isinstance(p, Site) else p
        out.append(s)
        pos += len(s)
    return ''.join(out)


def variants(pieces, k):
    """all spellings with at most k sites off their default: yields (dev dict, text), simplest first"""
    idx = site_indexes(pieces)
    yield {}, render(pieces)
    for n in range(1, k + 1):
        for combo in itertools.combinations(idx, n):
            ranges = [range(1, len(pieces[i].choices)) for i in combo]
            for choice in itertools.product(*ranges):
                dev = dict(zip(combo, choice))
                yield dev, render(pieces, dev)


def describe(pieces, dev):
    return sorted(pieces[i].describe(c) for i, c in dev.items())


def inserted_comments(pieces, dev):
    n = 0
    for i, c in dev.items():
        if isinstance(pieces[i], Gap) and '/*' in pieces[i].choices[c]:
            n += 1
    return n


# ----------------------------------------------------------------------------------------
# menus.  Every entry: (pieces, expected ...)

NS_P = 'http://p'


def _t(name, uri=None):
    return ('type-selector', (uri, name))


def selectors():
    """name -> Node(pieces, expected=(items, specificity), needs_ns=bool)"""
    S = {}
    S['a'] = Node([Name('a')], ((_t('a'),), (0, 0, 0, 1)))
    S['a b'] = Node([Name('a'), R(), Name('b')], ((_t('a'), ('descendant', ' '), _t('b')), (0, 0, 0, 2)))
    S['a>b'] = Node([Name('a'), O(), '>', O(), Name('b')], ((_t('a'), ('child', '>'), _t('b')), (0, 0, 0, 2)))
    S['a+b'] = Node([Name('a'), O(), '+', O(), Name('b')], ((_t('a'), ('adjacent-sibling', '+'), _t('b')), (0, 0, 0, 2)))
    S['a~b'] = Node([Name('a'), O(), '~', O(), Name('b')], ((_t('a'), ('following-sibling', '~'), _t('b')), (0, 0, 0, 2)))
    S['a.c#d'] = Node([Name('a'), Name('c', prefix='.'), Name('d', prefix='#')], ((_t('a'), ('class', '.c'), ('id', '#d')), (0, 1, 1, 1)))
    S['a[b="c"]'] = Node(
        [Name('a'), '[', O(), 'b', O(), '=', O(), Str('c'), O(), ']'],
        ((_t('a'), ('attribute-start', '['), ('attribute-selector', 'b'), ('equals', '='), ('STRING', 'c'), ('attribute-end', ']')), (0, 0, 1, 1)),
    )
    S['a[b|=c]'] = Node(
        [Name('a'), '[', O(), 'b', O(), '|=', O(), 'c', O(), ']'],
        ((_t('a'), ('attribute-start', '['), ('attribute-selector', 'b'), ('dashmatch', '|='), ('attribute-value', 'c'), ('attribute-end', ']')), (0, 0, 1, 1)),
    )
    S['a:hover'] = Node([Name('a'), Word('hover', prefix=':', simple=False)], ((_t('a'), ('pseudo-class', ':hover')), (0, 0, 0, 1)))
    S['a::before'] = Node([Name('a'), Word('before', prefix='::', simple=False)], ((_t('a'), ('pseudo-element', '::before')), (0, 0, 0, 2)))
    S['a:not(.b)'] = Node(
        [Name('a'), Word('not', prefix=':', simple=False), '(', O(), Name('b', prefix='.'), O(), ')'],
        ((_t('a'), ('negation-start', ':not('), ('class', '.b'), ('negation-end', ')')), (0, 0, 1, 1)),
    )
    S['a:nth-child(2n+1)'] = Node(
        [Name('a'), Word('nth-child', prefix=':', simple=False), '(', O(), '2n+1', O(), ')'],
        ((_t('a'), ('pseudo-class', ':nth-child('), ('DIMENSION', '2n'), ('NUMBER', '+1'), ('function-end', ')')), (0, 0, 0, 1)),
    )
    # one construct inside another: a functional pseudo-class inside the negation, a namespaced type selector inside the negation,
    # a namespaced attribute, a pseudo-element with an argument
    S['a:not(:nth-child(2n+1))'] = Node(
        [Name('a'), Word('not', prefix=':', simple=False), '(', O(), Word('nth-child', prefix=':', simple=False), '(', O(), '2n+1', O(), ')', O(), ')'],
        ((_t('a'), ('negation-start', ':not('), ('pseudo-class', ':nth-child('), ('DIMENSION', '2n'), ('NUMBER', '+1'), ('function-end', ')'),
          ('negation-end', ')')), (0, 0, 0, 1)),
    )
    S['a:not(p|b)'] = Node(
        [Name('a'), Word('not', prefix=':', simple=False), '(', O(), 'p|', Name('b'), O(), ')'],
        ((_t('a'), ('negation-start', ':not('), ('negation-type-selector', (NS_P, 'b')), ('negation-end', ')')), (0, 0, 0, 2)), needs_ns=True,
    )
    S['a[p|b=c]'] = Node(
        [Name('a'), '[', O(), 'p|b', O(), '=', O(), 'c', O(), ']'],
        ((_t('a'), ('attribute-start', '['), ('attribute-selector', (NS_P, 'b')), ('equals', '='), ('attribute-value', 'c'), ('attribute-end', ']')), (0, 0, 1, 1)),
        needs_ns=True,
    )
    S['a::slotted(b)'] = Node(
        [Name('a'), Word('slotted', prefix='::', simple=False), '(', O(), 'b', O(), ')'],
        ((_t('a'), ('pseudo-element', '::slotted('), ('IDENT', 'b'), ('function-end', ')')), (0, 0, 0, 2)),
    )
    S['*'] = Node(['*'], ((('universal', (None, '*')),), (0, 0, 0, 0)))
    S['p|a'] = Node(['p|', Name('a')], ((_t('a', NS_P),), (0, 0, 0, 1)), needs_ns=True)
    # explicitly in no namespace / in any namespace: neither needs a declaration
    S['|a'] = Node(['|', Name('a')], ((_t('a', ''),), (0, 0, 0, 1)))
    S['*|a'] = Node(['*|', Name('a')], ((_t('a', -1),), (0, 0, 0, 1)))
    S['a:not(|b)'] = Node(
        [Name('a'), Word('not', prefix=':', simple=False), '(', O(), '|', Name('b'), O(), ')'],
        ((_t('a'), ('negation-start', ':not('), ('negation-type-selector', ('', 'b')), ('negation-end', ')')), (0, 0, 0, 2)),
    )
    # unprefixed type selector in a sheet whose default namespace is NS_P
    S['a@default'] = Node([Name('a')], ((_t('a', NS_P),), (0, 0, 0, 1)))
    for n in S.values():
        n.__dict__.setdefault('needs_ns', False)
    return S


def _num(s, unit=''):
    from fractions import Fraction

    return ('num', str(Fraction(s)), unit)


def declarations():
    """name -> Node(value pieces, expected value items) with .prop (property name) and .prio"""
    D = {}

    def d(key, prop, pieces, exp, prio=''):
        D[key] = Node(pieces, exp, prop=prop, prio=prio)

    d('color:red', 'color', ['red'], (('color', 255, 0, 0, 1.0),))
    d('x:a', 'x', ['a'], (('ident', 'a'),))
    d('top:-1.5px', 'top', ['-1.5', Word('px', simple=False)], (_num('-1.5', 'px'),))
    d('width:50%', 'width', ['50%'], (_num('50', '%'),))
    d('z-index:1', 'z-index', ['1'], (_num('1'),))
    # an integer no double can hold (2**53 + 1): the DOM holds the digits that were written
    d('z-index:9007199254740993', 'z-index', ['9007199254740993'], (_num('9007199254740993'),))
    d('content:"s"', 'content', [Str('s')], (('string', 's'),))
    d('background:url(u)', 'background', [Word('url', simple=True), '(', Gap('O', comment=False), 'u', Gap('O', comment=False), ')'], (('url', 'u'),))
    d('color:#f00', 'color', ['#f00'], (('color', 255, 0, 0, 1.0),))
    d('color:rgb(1,2,3)', 'color', [Word('rgb', simple=False), '(', O(), '1', O(), ',', O(), '2', O(), ',', O(), '3', O(), ')'], (('color', 1, 2, 3, 1.0),))
    d('x:f(1,a)', 'x', [Word('f', simple=False), '(', O(), '1', O(), ',', O(), 'a', O(), ')'], (('func', 'f(', (_num('1'), ('op', ','), ('ident', 'a'))),))
    # one function inside another: calc() as argument of a generic function
    d('x:f(calc(1px + 2%),3)', 'x', [Word('f', simple=False), '(', O(), Word('calc', simple=False), '(', O(), '1px', R(), '+', R(), '2%', O(), ')', O(), ',', O(), '3', O(), ')'],
      (('func', 'f(', (('calc', (_num('1', 'px'), ('op', '+'), _num('2', '%'))), ('op', ','), _num('3'))),))
    d('width:calc(1px + 2%)', 'width', [Word('calc', simple=False), '(', O(), '1px', R(), '+', R(), '2%', O(), ')'],
      (('calc', (_num('1', 'px'), ('op', '+'), _num('2', '%'))),))
    d('width:calc(2px*3)', 'width', [Word('calc', simple=False), '(', O(), '2px', O(), '*', O(), '3', O(), ')'],
      (('calc', (_num('2', 'px'), ('op', '*'), _num('3'))),))
    d('unicode-range:U+1-FF', 'unicode-range', ['U+1-FF'], (('urange', 'u+1-ff'),))
    d('margin:0 1px', 'margin', ['0', V(), '1px'], (_num('0'), _num('1', 'px')))
    d('font-family:a,b', 'font-family', ['a', O(), ',', O(), 'b'], (('ident', 'a'), ('op', ','), ('ident', 'b')))
    d('font:12px/1.5 a', 'font', ['12px', O(), '/', O(), '1.5', V(), 'a'], (_num('12', 'px'), ('op', '/'), _num('1.5'), ('ident', 'a')))
    d('margin:0 1px,2em', 'margin', ['0', V(), '1px', O(), ',', O(), '2em'], (_num('0'), _num('1', 'px'), ('op', ','), _num('2', 'em')))
    # (white space in front of the operator written out: one deviation at the gap in front of it is then enough to have two components
    # separated by a comment only *and* a blank in front of the operator)
    d('margin:0 1px ,2em', 'margin', ['0', V(), '1px', ' ', ',', O(), '2em'], (_num('0'), _num('1', 'px'), ('op', ','), _num('2', 'em')))
    d('font:12px a / 1.5', 'font', ['12px', V(), 'a', '\n', '/', O(), '1.5'], (_num('12', 'px'), ('ident', 'a'), ('op', '/'), _num('1.5')))
    d('x:1!important', 'x', ['1'], (_num('1'),), prio='important')
    return D


def decl(dn):
    """one declaration as Node(pieces, expected=('decl', name, value, prio))"""
    pieces = [Word(dn.prop), O(), ':', O()] + list(dn.pieces)
    if dn.prio:
        pieces += [O(), '!', O(), Word(dn.prio, simple=False)]
    return Node(pieces, ('decl', dn.prop, dn.expected, dn.prio))


def block(decls, trailing_semicolon=False, extra=None):
    """{ d1 ; d2 } as pieces + expected tuple of decls; extra = nodes appended inside (e.g. margin boxes)"""
    pieces = ['{', O()]
    exp = []
    for i, dn in enumerate(decls):
        n = decl(dn)
        if i:
            pieces += [O(), ';', O()]
        pieces += n.pieces
        pieces.append(Mark(('decl-end', i)))
        exp.append(n.expected)
    if trailing_semicolon and decls:
        pieces += [O(), ';']
    ext = []
    for j, e in enumerate(extra or []):
        if decls and j == 0 and not trailing_semicolon:
            pieces += [O(), ';']
        pieces += [O()] + e.pieces
        ext.append(e.expected)
    pieces += [O(), '}']
    return pieces, tuple(exp), tuple(ext)


def style_rule(sel_nodes, decls, **kw):
    pieces = []
    exp = []
    for i, s in enumerate(sel_nodes):
        if i:
            pieces += [O(), ',', O()]
        pieces += s.pieces
        exp.append(s.expected)
    bp, be, _ = block(decls, **kw)
    pieces += [O()] + bp
    return Node(pieces, ('style', tuple(exp), be), needs_ns=any(s.needs_ns for s in sel_nodes), kind='style')


def at(word):
    return Word(word, prefix='@')


MEDIA = {
    'print': (['print'], ('print',)),
    'screen and (min-width:1px)': (['screen', R(), 'and', R(), '(', O(), 'min-width', O(), ':', O(), '1px', O(), ')'], ('screen', 'and', '(', 'min-width', ':', '1px', ')')),
    'not tv': (['not', R(), 'tv'], ('not', 'tv')),
    'screen and (max-width:5px)': (['screen', R(), 'and', R(), '(', O(), 'max-width', O(), ':', O(), '5px', O(), ')'], ('screen', 'and', '(', 'max-width', ':', '5px', ')')),
    'tv and (color)': (['tv', R(), 'and', R(), '(', O(), 'color', O(), ')'], ('tv', 'and', '(', 'color', ')')),
    'tv': (['tv'], ('tv',)),
    'all and (color)': (['all', R(), 'and', R(), '(', O(), 'color', O(), ')'], ('all', 'and', '(', 'color', ')')),
    'only screen': (['only', R(), 'screen'], ('only', 'screen')),
}


def media_list(names):
    pieces, exp = [], []
    for i, n in enumerate(names):
        if i:
            pieces += [O(), ',', O()]
        pieces += [p if isinstance(p, str) else _clone(p) for p in MEDIA[n][0]]
        exp.append(MEDIA[n][1])
    return pieces, tuple(exp)


def _clone(site):
    import copy

    return copy.copy(site)


_NESTED_IDS = __import__('itertools').count()


def media_rule(names, rules):
    mp, me = media_list(names)
    pieces = [at('media'), R()] + mp + [O(), '{', O()]
    exp, ends = [], []
    for i, r in enumerate(rules):
        if i:
            pieces += [O()]
        pieces += r.pieces
        ends.append(next(_NESTED_IDS))
        pieces.append(Mark(('nested-end', ends[-1])))  # where the contained rule ends (C04: truncation inside the block)
        exp.append(r.expected)
    pieces += [O(), '}']
    return Node(pieces, ('media', me, tuple(exp)), needs_ns=any(getattr(r, 'needs_ns', False) for r in rules), kind='media', rules=list(rules), ends=ends)


def import_rule(href, form='string', media=(), name=None):
    pieces = [at('import'), O() if form == 'string' else R()]
    if form == 'string':
        pieces.append(Str(href))
    else:
        pieces += [Word('url', simple=True), '(', Gap('O', comment=False), href, Gap('O', comment=False), ')']
    me = (('all',),)  # an empty media list means 'all'
    if media:
        mp, me = media_list(media)
        pieces += [O() if form == 'string' else R()] + mp
    if name:
        pieces += [O() if (form == 'string' and not media) else R(), Str(name)]
    pieces += [O(), ';']
    return Node(pieces, ('import', href, me, name), needs_ns=False, kind='import')


def namespace_rule(prefix, uri, form='string'):
    pieces = [at('namespace')]
    if prefix:
        pieces += [R(), prefix, O() if form == 'string' else R()]
    else:
        pieces += [O() if form == 'string' else R()]
    if form == 'string':
        pieces.append(Str(uri))
    else:
        pieces += [Word('url', simple=True), '(', uri, ')']
    pieces += [O(), ';']
    return Node(pieces, ('namespace', prefix, uri), needs_ns=False, kind='namespace')


def margin_box(name, decls):
    bp, be, _ = block(decls)
    return Node([Word(name, prefix='@', role='@margin-box')] + [O()] + bp, ('margin', '@' + name, be))


def page_rule(selector, decls, margins=()):
    """selector: '' | ':first' | 'n:left'"""
    pieces = [at('page')]
    if selector:
        pieces.append(R())
        if ':' in selector:
            nm, ps = selector.split(':')
            if nm:
                pieces.append(nm)
            pieces.append(Word(ps, prefix=':', esc=False))
        else:
            pieces.append(selector)
    bp, be, ext = block(decls, extra=[margin_box(n, ds) for n, ds in margins])
    pieces += [O()] + bp
    return Node(pieces, ('page', selector, be, ext), needs_ns=False, kind='page')


def fontface_rule(decls):
    bp, be, _ = block(decls)
    return Node([at('font-face'), O()] + bp, ('font-face', be), needs_ns=False, kind='font-face')


def charset_rule(enc):
    return Node(['@charset "%s";' % enc], ('charset', enc), needs_ns=False, kind='charset')


def unknown_rule(form):
    if form == ';':
        return Node(['@x', R(), 'y', O(), ';'], ('unknown', '@x', (('IDENT', 'y'), ('CHAR', ';'))), needs_ns=False, kind='unknown')
    if form == '[':
        # brackets of three kinds inside each other
        return Node(['@x', R(), 'y', O(), '{', O(), 'z', O(), '[', O(), 'w', O(), '(', O(), 'v', O(), ')', O(), ']', O(), 'u', O(), '}'],
                    ('unknown', '@x', (('IDENT', 'y'), ('CHAR', '{'), ('IDENT', 'z'), ('CHAR', '['), ('IDENT', 'w'), ('CHAR', '('), ('IDENT', 'v'), ('CHAR', ')'),
                                       ('CHAR', ']'), ('IDENT', 'u'), ('CHAR', '}'))), needs_ns=False, kind='unknown')
    return Node(['@x', R(), 'y', O(), '{', O(), 'z', O(), '}'], ('unknown', '@x', (('IDENT', 'y'), ('CHAR', '{'), ('IDENT', 'z'), ('CHAR', '}'))), needs_ns=False, kind='unknown')


def comment_rule(text='k'):
    return Node(['/*%s*/' % text], ('comment', '/*%s*/' % text), needs_ns=False, kind='comment')


ORDER = {'charset': 0, 'import': 1, 'namespace': 2}


def sheet(rules):
    """a sheet from rule nodes; a namespace rule for prefix p is inserted when a rule needs it.  Returns Node or None
    if the order is not valid CSS (charset first, imports, namespaces, the rest)."""
    rules = list(rules)
    if any(getattr(r, 'needs_ns', False) for r in rules) and not any(r.kind == 'namespace' and r.expected[1] == 'p' for r in rules):
        # after the last charset/import/namespace
        pos = 0
        for i, r in enumerate(rules):
            if r.kind in ORDER:
                pos = i + 1
        rules.insert(pos, namespace_rule('p', NS_P))
    level = 0
    for i, r in enumerate(rules):
        if r.kind == 'comment':
            continue
        lv = ORDER.get(r.kind, 3)
        if r.kind == 'charset' and i != 0:
            return None
        if lv < level:
            return None
        level = lv
    pieces, exp = [], []
    for i, r in enumerate(rules):
        if i:
            pieces.append(O())
        pieces += [p if not isinstance(p, Site) else _clone(p) for p in r.pieces]
        pieces.append(Mark(('rule-end', i)))
        exp.append(r.expected)
    return Node(pieces, tuple(exp), rules=rules)


def _is_comment_node(e):
    return isinstance(e, tuple) and len(e) == 2 and e[0] == 'comment' and isinstance(e[1], str) and e[1].startswith('/*')


def strip_comments_expected(exp):
    """the projection without comment nodes (what proj_nc must give)"""
    if isinstance(exp, tuple):
        return tuple(strip_comments_expected(e) for e in exp if not _is_comment_node(e))
    return exp
