"""Reference model for C18: what a CSS numeric literal and a CSS colour *denote*.

Written from the specifications, not from the code under test:

* numbers   - CSS 2.1 section 4.3.1/4.3.2 and the grammar `num [0-9]+|[0-9]*\\.[0-9]+` with an optional sign: the
              value is the decimal fraction, computed here with `fractions.Fraction` (exact, no floats).
* #rgb      - CSS Color Module Level 3 section 4.2.1: "#rgb is converted into #rrggbb by replicating digits, not by
              adding zeros", components are hexadecimal 00..ff.
* rgb()     - section 4.2.1: three integers 0..255 or three percentages 0%..100% (100% = 255); "values outside the
              device gamut should be clipped" - rgb(300,0,0) is rgb(255,0,0), rgb(110%,0%,0%) is rgb(100%,0%,0%),
              negative values clip to 0.  The specification does not say how a percentage that falls between two
              integers is rounded: the model keeps the exact rational channel and `channel_ok` accepts both
              neighbouring integers.
* rgba()    - section 4.2.2: alpha is a number clipped to 0.0 .. 1.0.
* hsl()     - section 4.2.4: hue is an angle in degrees normalised by ((h mod 360)+360) mod 360, saturation and
              lightness percentages clipped to 0..100%; conversion by the algorithm printed in the specification
              (HOW TO RETURN hsl.to.rgb / hue.to.rgb), transcribed below with Fractions.
* keywords  - section 4.3 "Extended color keywords" (147 names) plus `transparent` (section 4.2.3: rgba(0,0,0,0)).
              The table below was typed in as hexadecimal strings from that section (the library stores decimal
              tuples scraped from the HTML of the same document, so a transcription slip on either side shows up as
              a difference).  It was cross-checked once, when this file was written, against two tables that are
              independent of cssutils and happened to be on the build machine - csscolorparser-0.6.2
              `named_colors.rs` (CSS Color 4 table) and prompt_toolkit `named_colors.py` (w3schools list): all 147
              names and values agree (both lists also carry the CSS4 addition `rebeccapurple`, which is not CSS3).
              None of those files is read at run time.
"""
import re
from fractions import Fraction

# ----------------------------------------------------------------------------------------
# numbers

_NUM = re.compile(r'^([+-]?)([0-9]*)(?:\.([0-9]+))?$')
_NUMERIC = re.compile(r'^([+-]?)([0-9]*)(?:\.([0-9]+))?(%|-?[A-Za-z_\u0080-\U0010ffff][A-Za-z0-9_\u0080-\U0010ffff-]*)?$')

# CSS 2.1 4.3.2: relative (em, ex, px) and absolute (in, cm, mm, pt, pc) length units
LENGTH_UNITS = frozenset(['em', 'ex', 'px', 'in', 'cm', 'mm', 'pt', 'pc'])


def number_value(sign, intpart, frac):
    """exact value of the literal  sign intpart [ '.' frac ]"""
    if not intpart and not frac:
        raise ValueError('not a number')
    v = Fraction(int(intpart or '0'))
    if frac:
        v += Fraction(int(frac), 10 ** len(frac))
    return -v if sign == '-' else v


def parse_numeric(token):
    """(sign, intpart, frac, unit) of a NUMBER / PERCENTAGE / DIMENSION token, unit '' for a plain number; None if
    the text is not such a token.  Unit is returned lower-cased (units are case-insensitive)."""
    m = _NUMERIC.match(token)
    if not m:
        return None
    sign, i, f, unit = m.groups()
    if not i and not f:
        return None
    if f is None and '.' in token:
        return None
    return sign, i, f or '', (unit or '').lower()


def significant_digits(intpart, frac):
    """digits of the literal from its first non-zero digit on (trailing zeros count: they are written)"""
    return len((intpart + frac).lstrip('0'))


def spelling_is_normal(intpart, frac):
    """"redundant zeros dropped": no leading zero besides a single 0 before the point, no trailing zero in the
    fraction, no fraction that is zero"""
    if frac and frac.endswith('0'):
        return False
    if len(intpart) > 1 and intpart.startswith('0'):
        return False
    return True


def same_quantity(src_value, src_unit, out_value, out_unit):
    """'value' / 'unit' / None: which part of (value, unit) differs.  A zero *length* may lose its unit."""
    if src_value != out_value:
        return 'value'
    if src_unit == out_unit:
        return None
    if src_value == 0 and src_unit in LENGTH_UNITS and out_unit == '':
        return None
    return 'unit'


# ----------------------------------------------------------------------------------------
# colours: every function returns exact channels (r, g, b, a) as Fractions on the 0..255 / 0..1 scales

HEXDIGITS = '0123456789abcdefABCDEF'


def hex_rgba(h):
    """'#rgb' or '#rrggbb' -> channels; None if it is not a hexadecimal colour"""
    if not h.startswith('#') or any(c not in HEXDIGITS for c in h[1:]):
        return None
    d = h[1:]
    if len(d) == 3:
        d = d[0] * 2 + d[1] * 2 + d[2] * 2  # replicate digits
    if len(d) != 6:
        return None
    return (Fraction(int(d[0:2], 16)), Fraction(int(d[2:4], 16)), Fraction(int(d[4:6], 16)), Fraction(1))


def is_doubles(h):
    """#rrggbb whose three pairs are doubled digits (case-insensitively): the only colours #rgb can express"""
    d = h[1:].lower()
    return len(d) == 6 and d[0] == d[1] and d[2] == d[3] and d[4] == d[5]


def _clip(v, lo, hi):
    return lo if v < lo else hi if v > hi else v


def rgb_rgba(args):
    """args: list of (kind, Fraction) with kind 'n' (number) or 'p' (percentage); 3 or 4 of them.
    None if the argument kinds are not NNN[N] / PPP[N]."""
    kinds = ''.join(k for k, _ in args)
    if kinds not in ('nnn', 'ppp', 'nnnn', 'pppn'):
        return None
    out = []
    for k, v in args[:3]:
        if k == 'n':
            out.append(_clip(v, Fraction(0), Fraction(255)))
        else:
            out.append(_clip(v, Fraction(0), Fraction(100)) * 255 / 100)
    out.append(_clip(args[3][1], Fraction(0), Fraction(1)) if len(args) == 4 else Fraction(1))
    return tuple(out)


def _hue_to_rgb(m1, m2, h):
    if h < 0:
        h = h + 1
    if h > 1:
        h = h - 1
    if h * 6 < 1:
        return m1 + (m2 - m1) * h * 6
    if h * 2 < 1:
        return m2
    if h * 3 < 2:
        return m1 + (m2 - m1) * (Fraction(2, 3) - h) * 6
    return m1


def hsl_rgba(args):
    """args as for rgb_rgba, kinds NPP[N]"""
    kinds = ''.join(k for k, _ in args)
    if kinds not in ('npp', 'nppn'):
        return None
    hdeg = ((args[0][1] % 360) + 360) % 360
    h = hdeg / 360
    s = _clip(args[1][1], Fraction(0), Fraction(100)) / 100
    l = _clip(args[2][1], Fraction(0), Fraction(100)) / 100  # noqa: E741
    if l * 2 <= 1:
        m2 = l * (s + 1)
    else:
        m2 = l + s - l * s
    m1 = l * 2 - m2
    r = _hue_to_rgb(m1, m2, h + Fraction(1, 3))
    g = _hue_to_rgb(m1, m2, h)
    b = _hue_to_rgb(m1, m2, h - Fraction(1, 3))
    a = _clip(args[3][1], Fraction(0), Fraction(1)) if len(args) == 4 else Fraction(1)
    return (r * 255, g * 255, b * 255, a)


def channel_ok(observed, exact):
    """an integer channel agrees with the exact rational channel: equal if that is an integer, else one of the
    two neighbouring integers (the specification leaves the rounding open)"""
    if isinstance(observed, bool) or not isinstance(observed, int):
        if isinstance(observed, float) and observed == int(observed):
            observed = int(observed)
        else:
            return False
    return abs(observed - exact) < 1


def alpha_ok(observed, exact):
    if isinstance(observed, bool) or not isinstance(observed, (int, float)):
        return False
    return float(observed) == float(exact)


_TABLE = """
aliceblue f0f8ff antiquewhite faebd7 aqua 00ffff aquamarine 7fffd4 azure f0ffff beige f5f5dc bisque ffe4c4
black 000000 blanchedalmond ffebcd blue 0000ff blueviolet 8a2be2 brown a52a2a burlywood deb887 cadetblue 5f9ea0
chartreuse 7fff00 chocolate d2691e coral ff7f50 cornflowerblue 6495ed cornsilk fff8dc crimson dc143c cyan 00ffff
darkblue 00008b darkcyan 008b8b darkgoldenrod b8860b darkgray a9a9a9 darkgreen 006400 darkgrey a9a9a9
darkkhaki bdb76b darkmagenta 8b008b darkolivegreen 556b2f darkorange ff8c00 darkorchid 9932cc darkred 8b0000
darksalmon e9967a darkseagreen 8fbc8f darkslateblue 483d8b darkslategray 2f4f4f darkslategrey 2f4f4f
darkturquoise 00ced1 darkviolet 9400d3 deeppink ff1493 deepskyblue 00bfff dimgray 696969 dimgrey 696969
dodgerblue 1e90ff firebrick b22222 floralwhite fffaf0 forestgreen 228b22 fuchsia ff00ff gainsboro dcdcdc
ghostwhite f8f8ff gold ffd700 goldenrod daa520 gray 808080 green 008000 greenyellow adff2f grey 808080
honeydew f0fff0 hotpink ff69b4 indianred cd5c5c indigo 4b0082 ivory fffff0 khaki f0e68c lavender e6e6fa
lavenderblush fff0f5 lawngreen 7cfc00 lemonchiffon fffacd lightblue add8e6 lightcoral f08080 lightcyan e0ffff
lightgoldenrodyellow fafad2 lightgray d3d3d3 lightgreen 90ee90 lightgrey d3d3d3 lightpink ffb6c1
lightsalmon ffa07a lightseagreen 20b2aa lightskyblue 87cefa lightslategray 778899 lightslategrey 778899
lightsteelblue b0c4de lightyellow ffffe0 lime 00ff00 limegreen 32cd32 linen faf0e6 magenta ff00ff maroon 800000
mediumaquamarine 66cdaa mediumblue 0000cd mediumorchid ba55d3 mediumpurple 9370db mediumseagreen 3cb371
mediumslateblue 7b68ee mediumspringgreen 00fa9a mediumturquoise 48d1cc mediumvioletred c71585
midnightblue 191970 mintcream f5fffa mistyrose ffe4e1 moccasin ffe4b5 navajowhite ffdead navy 000080
oldlace fdf5e6 olive 808000 olivedrab 6b8e23 orange ffa500 orangered ff4500 orchid da70d6 palegoldenrod eee8aa
palegreen 98fb98 paleturquoise afeeee palevioletred db7093 papayawhip ffefd5 peachpuff ffdab9 peru cd853f
pink ffc0cb plum dda0dd powderblue b0e0e6 purple 800080 red ff0000 rosybrown bc8f8f royalblue 4169e1
saddlebrown 8b4513 salmon fa8072 sandybrown f4a460 seagreen 2e8b57 seashell fff5ee sienna a0522d silver c0c0c0
skyblue 87ceeb slateblue 6a5acd slategray 708090 slategrey 708090 snow fffafa springgreen 00ff7f
steelblue 4682b4 tan d2b48c teal 008080 thistle d8bfd8 tomato ff6347 turquoise 40e0d0 violet ee82ee
wheat f5deb3 white ffffff whitesmoke f5f5f5 yellow ffff00 yellowgreen 9acd32
""".split()

KEYWORDS = {_TABLE[i]: hex_rgba('#' + _TABLE[i + 1]) for i in range(0, len(_TABLE), 2)}
assert len(KEYWORDS) == 147, len(KEYWORDS)
KEYWORDS['transparent'] = (Fraction(0), Fraction(0), Fraction(0), Fraction(0))


def keyword_rgba(name):
    """colour keywords are ASCII case-insensitive"""
    return KEYWORDS.get(name.lower())
