"""Reference model of the serializer preferences (property C06).

Written from the docstring of ``cssutils.serialize.Preferences`` (the documentation of every preference),
not from the serializer.  The model works on an *annotated projection* of a DOM:

    annotate(sheet, text)  ->  list of rule nodes (plain dicts)

which is `mc.model.proj.proj(sheet, literal=True)` cut into nodes (``plain(tree)`` gives the proj tuple back
exactly - the checks assert that) plus the facts the documented effects talk about and the projection has no
place for: validity of a declaration (``Property.valid``), the written form of an ``@import`` target
(``hreftype``), the literal spelling of every at-keyword and of the names in ``@variables`` blocks (read from the
token stream of ``text``, the text the sheet was parsed from) and the hash colours of a value as written.

    apply(tree, prefs)     ->  the tree the documentation promises for that preference assignment

and a handful of readers give the token-level expectations (at-keyword sequence, variable names, hash colours).

Documented effects, one line each (D = documentation, C = resolved towards the code because D is silent):

  keepComments=False            D  all comments are removed
  keepEmptyRules=False          D  empty rules are removed; C: a rule whose content was filtered away is empty, a
                                   rule that holds only a (kept) comment is not
  keepUnknownAtRules=False      D  unknown at-rules are removed (at every level, also inside declaration blocks)
  keepUsedNamespaceRulesOnly    D  only namespace rules which are actually used are kept; C: "used" is judged on the
                                   DOM, not on what is left after the other filters
  keepAllProperties=False       D  only the effective declaration of a name is kept (last important one, else last)
  validOnly                     D  only valid properties are output; C: applied after the choice of the effective
                                   declaration (an invalid effective declaration leaves nothing of that name)
  resolveVariables              D  var() is replaced by the value of the variable, @variables rules are removed,
                                   a reference that cannot be resolved is kept untouched
  importHrefFormat              D  None: as written, 'string': "href", 'uri': url(href)
  defaultAtKeyword              D  default form of the at-keyword, else the literal one (the default form of an unknown
                                   at-rule is its normalised keyword)
  defaultPropertyName           D  normalised name, else the literal one; only used if keepAllProperties is False
  defaultPropertyPriority       D  normalised priority, else the literal one
  normalizedVarNames            D  names in @variables blocks are written normalised, else as given
  minimizeColorHash             D  #rrggbb is written #rgb when r, g, b are doubled digits
  omitLeadingZero               D  numbers between -1 and 1 are written without the 0
  omitLastSemicolon             D  no ';' after the last declaration of a block; C (pinned by the repository's tests): the
                                   ';' stays when the declaration is not the last item of the block in the DOM (a comment, an
                                   unknown at-rule or a filtered declaration follows); @page and @variables blocks are not judged
  everything else               D  white space only
"""
import re

import cssutils
import cssutils.css
from cssutils.tokenize2 import Tokenizer

from . import proj as P

# the documented defaults (docstring of Preferences)
DEFAULTS = {
    'defaultAtKeyword': True,
    'defaultPropertyName': True,
    'defaultPropertyPriority': True,
    'importHrefFormat': None,
    'indent': 4 * ' ',
    'indentClosingBrace': True,
    'indentSpecificities': False,
    'keepAllProperties': True,
    'keepComments': True,
    'keepEmptyRules': False,
    'keepUnknownAtRules': True,
    'keepUsedNamespaceRulesOnly': False,
    'lineNumbers': False,
    'lineSeparator': '\n',
    'listItemSpacer': ' ',
    'minimizeColorHash': True,
    'normalizedVarNames': True,
    'omitLastSemicolon': True,
    'omitLeadingZero': False,
    'paranthesisSpacer': ' ',
    'propertyNameSpacer': ' ',
    'resolveVariables': True,
    'selectorCombinatorSpacer': ' ',
    'spacer': ' ',
    'validOnly': False,
}

# preferences the documentation describes as white space / presentation only
LAYOUT = ('indent', 'indentClosingBrace', 'indentSpecificities', 'lineNumbers', 'lineSeparator', 'listItemSpacer',
          'paranthesisSpacer', 'propertyNameSpacer', 'selectorCombinatorSpacer', 'spacer')

ATKW_TYPES = {'ATKEYWORD', 'CHARSET_SYM', 'FONT_FACE_SYM', 'MEDIA_SYM', 'IMPORT_SYM', 'NAMESPACE_SYM', 'PAGE_SYM', 'VARIABLES_SYM'}
NUM_TYPES = {'NUMBER', 'DIMENSION', 'PERCENTAGE'}
_ESC = re.compile(r'\\(?:([0-9a-fA-F]{1,6})(?:\r\n|[ \t\r\n\f])?|([^\r\n\f0-9a-fA-F]))')
_HEXCOL = re.compile(r'^#(?:[0-9a-fA-F]{3}|[0-9a-fA-F]{6})$')


def norm(word):
    """normal form of a CSS word: escapes decoded, lower case"""
    return _ESC.sub(lambda m: chr(int(m.group(1), 16)) if m.group(1) else m.group(2), word).lower()


# ----------------------------------------------------------------------------------------
# token readers (text level)


def tokens(text):
    """(type, value) of every token except white space and EOF"""
    return [(t[0], t[1]) for t in Tokenizer().tokenize(text, fullsheet=True) if t[0] not in ('S', 'EOF')]


def atkeywords(toks):
    return [v for t, v in toks if t in ATKW_TYPES]


def variable_names(toks):
    """for every @variables block the names as written: IDENT directly followed by ':' at depth 1 of the block"""
    out = []
    i = 0
    n = len(toks)
    while i < n:
        if toks[i][0] == 'VARIABLES_SYM':
            names = []
            while i < n and toks[i][1] != '{':
                i += 1
            depth = 0
            while i < n:
                t, v = toks[i]
                if v == '{' and t == 'CHAR':
                    depth += 1
                elif v == '}' and t == 'CHAR':
                    depth -= 1
                    if depth == 0:
                        break
                elif (depth == 1 and t == 'IDENT' and i + 1 < n and toks[i + 1][1] == ':'
                      and (toks[i - 1][1] in ('{', ';') or toks[i - 1][0] == 'COMMENT')):
                    # a name declared again keeps its first place and takes the later spelling (and value)
                    again = [k for k, old in enumerate(names) if norm(old) == norm(v)]
                    if again:
                        names[again[0]] = v
                    else:
                        names.append(v)
                i += 1
            out.append(names)
        i += 1
    return out


def hash_colours(toks):
    return [v for t, v in toks if t == 'HASH' and _HEXCOL.match(v)]


def numbers(toks):
    return [v for t, v in toks if t in NUM_TYPES]


MARGINS = {'@top-left-corner', '@top-left', '@top-center', '@top-right', '@top-right-corner', '@bottom-left-corner', '@bottom-left',
           '@bottom-center', '@bottom-right', '@bottom-right-corner', '@left-top', '@left-middle', '@left-bottom', '@right-top',
           '@right-middle', '@right-bottom'}


def block_ends(toks):
    """how every block that is no unknown at-rule ends: 'open' (a declaration without ';' in front of the '}'),
    'semi' (a declaration with ';'), 'semi-at' (an at-rule statement ending in ';'), 'block' / 'empty' (after '}' / '{')"""
    out = []
    stack = []  # unknown? per open block
    first = None  # first token of the running statement
    prevfirst = None  # first token of the statement closed by the last ';'
    prev = None
    for t, v in toks:
        if t == 'COMMENT':
            continue
        ch = v if t == 'CHAR' else None
        inunknown = bool(stack and stack[-1])
        if ch == '{':
            unknown = inunknown or (first is not None and first[0] == 'ATKEYWORD' and norm(first[1]) not in MARGINS)
            stack.append(unknown)
            first = prevfirst = None
        elif ch == '}':
            if stack:
                if not stack.pop():
                    if first is not None:
                        out.append('open')
                    elif prev == ';':
                        out.append('semi-at' if prevfirst is not None and prevfirst[0] in ATKW_TYPES else 'semi')
                    elif prev == '{':
                        out.append('empty')
                    else:
                        out.append('block')
            first = prevfirst = None
        elif ch == ';':
            prevfirst, first = first, None
        elif first is None:
            first = (t, v)
        prev = ch
    return out


# ----------------------------------------------------------------------------------------
# annotated projection


def _hashes(seq, out):
    for it in seq:
        v = it.value
        if isinstance(v, cssutils.css.ColorValue):
            if v.colorType == 'HASH':
                for x in v.seq:
                    if x.type == 'HASH' and isinstance(x.value, str):
                        out.append(x.value)
        elif isinstance(v, cssutils.css.CSSVariable):
            continue
        elif isinstance(v, cssutils.css.CSSFunction):  # calc, functions
            _hashes(v.seq, out)
    return out


def _body(style):
    out = []
    for ch, p in zip(style.children(), P.proj_style(style, True, True)):
        if p[0] == 'decl':
            out.append({'k': 'decl', 'name': p[1], 'value': p[2], 'prio': p[3], 'lname': p[4], 'lprio': p[5],
                        'valid': bool(ch.valid), 'hashes': _hashes(ch.propertyValue.seq, [])})
        elif p[0] == 'comment':
            out.append({'k': 'comment', 'text': p[1]})
        else:
            out.append({'k': 'other', 'p': p})
    return out


def _rules(rules):
    R = cssutils.css.CSSRule
    out = []
    for r in rules:
        p = P.proj_rule(r, True, True)
        k = p[0]
        if k == 'style':
            n = {'k': k, 'sel': p[1], 'body': _body(r.style)}
        elif k == 'media':
            n = {'k': k, 'mq': p[1], 'rules': _rules(r.cssRules)}
        elif k == 'import':
            n = {'k': k, 'href': p[1], 'media': p[2], 'name': p[3], 'hreftype': r.hreftype}
        elif k == 'namespace':
            n = {'k': k, 'prefix': p[1], 'uri': p[2]}
        elif k == 'page':
            n = {'k': k, 'sel': p[1], 'body': _body(r.style), 'rules': _rules(r.cssRules)}
        elif k == 'margin':
            n = {'k': k, 'name': p[1], 'body': _body(r.style)}
        elif k == 'font-face':
            n = {'k': k, 'body': _body(r.style)}
        elif k == 'charset':
            n = {'k': k, 'enc': p[1]}
        elif k == 'comment':
            n = {'k': k, 'text': p[1]}
        elif k == 'unknown':
            n = {'k': k, 'kwn': p[1], 'items': p[2]}
        elif k == 'variables':
            n = {'k': k, 'vars': p[1]}
        else:
            n = {'k': 'other', 'p': p}
        out.append(n)
    return out


def _nested_atkw(node):
    """at-keyword tokens of a node that are not rules of the DOM"""
    if node['k'] == 'unknown':
        return sum(1 for t, v in node['items'] if t == 'ATKEYWORD')
    if node['k'] == 'other':
        return len(re.findall(r'@[-\w\\]', repr(node['p'])))
    return 0


def _walk(tree):
    """pre-order over rule nodes and the non-declaration nodes of declaration blocks"""
    for n in tree:
        yield n
        for b in n.get('body', ()):
            if b['k'] == 'other':
                yield b
        if 'rules' in n:
            yield from _walk(n['rules'])


class Misaligned(Exception):
    """the token stream of the text and the DOM do not tell the same story (a harness problem for the corpus)"""


def annotate(sheet, text=None, toks=None):
    """annotated projection of `sheet`; with `text` (what the sheet was parsed from) the literal spellings too"""
    tree = _rules(sheet.cssRules)
    if text is not None or toks is not None:
        toks = toks if toks is not None else tokens(text)
        kws = atkeywords(toks)
        names = variable_names(toks)
        i = j = 0
        for n in _walk(tree):
            k = n['k']
            if k in ('comment', 'style'):
                continue
            if k == 'other':
                n['kws'] = kws[i:i + _nested_atkw(n)]
                i += len(n['kws'])
                continue
            if i >= len(kws):
                raise Misaligned(f'no at-keyword token left for {k}')
            n['kw'] = kws[i]
            i += 1
            if k == 'unknown':
                n['kws'] = kws[i:i + _nested_atkw(n)]
                i += len(n['kws'])
            if k == 'variables':
                if j >= len(names):
                    raise Misaligned('no @variables block left')
                n['names'] = names[j]
                j += 1
        if i != len(kws) or j != len(names):
            raise Misaligned(f'{len(kws) - i} at-keyword tokens / {len(names) - j} @variables blocks without a DOM node')
    return tree


def _plain_body(body, hreftype):
    out = []
    for b in body:
        if b['k'] == 'decl':
            out.append(('decl', b['name'], b['value'], b['prio'], b['lname'], b['lprio']))
        elif b['k'] == 'comment':
            out.append(('comment', b['text']))
        else:
            out.append(b['p'])
    return tuple(out)


def plain(tree, hreftype=False):
    """the tuple `proj.proj(sheet, literal=True)` gives for the same DOM (with hreftype: + the form of @import targets)"""
    out = []
    for n in tree:
        k = n['k']
        if k == 'style':
            out.append((k, n['sel'], _plain_body(n['body'], hreftype)))
        elif k == 'media':
            out.append((k, n['mq'], plain(n['rules'], hreftype)))
        elif k == 'import':
            out.append((k, n['href'], n['media'], n['name']) + ((n['hreftype'],) if hreftype else ()))
        elif k == 'namespace':
            out.append((k, n['prefix'], n['uri']))
        elif k == 'page':
            out.append((k, n['sel'], _plain_body(n['body'], hreftype), plain(n['rules'], hreftype)))
        elif k == 'margin':
            out.append((k, n['name'], _plain_body(n['body'], hreftype)))
        elif k == 'font-face':
            out.append((k, _plain_body(n['body'], hreftype)))
        elif k == 'charset':
            out.append((k, n['enc']))
        elif k == 'comment':
            out.append((k, n['text']))
        elif k == 'unknown':
            out.append((k, n['kwn'], n['items']))
        elif k == 'variables':
            out.append((k, n['vars']))
        else:
            out.append(n['p'])
    return tuple(out)


# ----------------------------------------------------------------------------------------
# the documented effects


def used_namespaces(tree):
    """URIs some selector of the sheet refers to (type / universal / attribute selectors, at any depth)"""
    used = set()

    def sel(items):
        for t, v in items:
            if isinstance(v, tuple) and len(v) == 2 and t != 'negation':
                used.add(v[0])

    def walk(rules):
        for n in rules:
            if n['k'] == 'style':
                for items, _spec in n['sel']:
                    sel(items)
            if 'rules' in n:
                walk(n['rules'])

    walk(tree)
    return used


def variables_of(tree):
    """normalised name -> value text; a later definition replaces an earlier one"""
    out = {}
    for n in tree:
        if n['k'] == 'variables':
            for name, value in n['vars']:
                out[norm(name)] = value
    return out


def _value_items(text):
    return P.proj_value(cssutils.css.PropertyValue(text))


def _resolve(items, variables):
    out = []
    for it in items:
        if it[0] == 'var' and len(it) == 3:
            v = variables.get(norm(it[1]))
            if v:
                out.extend(_value_items(v))
            else:
                out.append(it)
        elif it[0] in ('func',) and len(it) == 3:
            out.append((it[0], it[1], _resolve(it[2], variables)))
        elif it[0] == 'calc' and len(it) == 2:
            out.append((it[0], _resolve(it[1], variables)))
        else:
            out.append(it)
    return tuple(out)


def effective(decls):
    """of the declarations of one block those that decide the value of their name: the last important one, else the last"""
    best = {}
    for d in decls:
        cur = best.get(d['name'])
        if cur is None or d['prio'] == 'important' or cur['prio'] != 'important':
            best[d['name']] = d
    return [d for d in decls if best[d['name']] is d]


def _apply_body(body, a, variables):
    decls = [b for b in body if b['k'] == 'decl']
    keep = decls
    if not a['keepAllProperties']:
        keep = effective(keep)
    if a['validOnly']:
        keep = [d for d in keep if d['valid']]
    keep = {id(d) for d in keep}
    out = []
    for b in body:
        if b['k'] == 'comment':
            if a['keepComments']:
                out.append(b)
        elif b['k'] == 'other':
            if a['keepUnknownAtRules']:
                out.append(b)
        elif id(b) in keep:
            d = dict(b)
            if a['resolveVariables']:
                d['value'] = _resolve(d['value'], variables)
            if a['defaultPropertyName'] and not a['keepAllProperties']:
                d['lname'] = d['name']
            if a['defaultPropertyPriority'] and d['prio']:
                d['lprio'] = d['prio']
            out.append(d)
    # the last item of the block is a declaration and it is written
    lastkept = bool(body) and body[-1]['k'] == 'decl' and id(body[-1]) in keep
    return out, lastkept


def _apply_rules(rules, a, variables, used):
    out = []
    for n in rules:
        k = n['k']
        n = dict(n)
        if k == 'comment':
            if not a['keepComments']:
                continue
        elif k == 'unknown':
            if not a['keepUnknownAtRules']:
                continue
        elif k == 'variables':
            if a['resolveVariables']:
                continue
            if not n['vars'] and not a['keepEmptyRules']:
                continue
            if a['normalizedVarNames'] and 'names' in n:
                n['names'] = [norm(x) for x in n['names']]
        elif k == 'namespace':
            if a['keepUsedNamespaceRulesOnly'] and n['uri'] not in used:
                continue
        elif k == 'import':
            if a['importHrefFormat'] in ('string', 'uri'):
                n['hreftype'] = a['importHrefFormat']
        if 'body' in n:
            n['body'], n['lastkept'] = _apply_body(n['body'], a, variables)
        if 'rules' in n:
            n['rules'] = _apply_rules(n['rules'], a, variables, used)
        if ('body' in n or 'rules' in n) and not n.get('body') and not n.get('rules') and not a['keepEmptyRules']:
            continue
        if 'kw' in n and a['defaultAtKeyword']:
            n['kw'] = norm(n['kw'])
        out.append(n)
    return out


def apply(tree, a):
    """the annotated projection the documentation promises when `tree` is serialised under the assignment `a`"""
    return _apply_rules(tree, a, variables_of(tree), used_namespaces(tree))


# expectations on the text, read off an (expected) tree


def expected_atkeywords(tree):
    out = []
    for n in _walk(tree):
        if 'kw' in n:
            out.append(n['kw'])
        out.extend(n.get('kws', ()))
    return out


def expected_variable_names(tree):
    return [list(n['names']) for n in tree if n['k'] == 'variables' and 'names' in n]


def short_hash(h):
    if len(h) == 7 and h[1] == h[2] and h[3] == h[4] and h[5] == h[6]:
        return '#' + h[1] + h[3] + h[5]
    return h


def expected_hashes(tree, a):
    out = []

    def body(b):
        for d in b:
            if d['k'] == 'decl':
                out.extend(short_hash(h) if a['minimizeColorHash'] else h for h in d['hashes'])

    def walk(rules):
        for n in rules:
            if 'body' in n:
                body(n['body'])
            if 'rules' in n:
                walk(n['rules'])

    walk(tree)
    return out


def semicolon_bounds(tree):
    """(blocks that must end without ';', blocks that may end with ';' after a declaration) when omitLastSemicolon is on"""
    must = may = 0
    for n in _all(tree):
        if n['k'] == 'variables':
            may += 1
        elif 'body' in n and any(b['k'] == 'decl' for b in n['body']):
            if n['k'] != 'page' and n.get('lastkept'):
                must += 1
            else:
                may += 1
    return must, may


def _all(tree):
    for n in tree:
        yield n
        if 'rules' in n:
            yield from _all(n['rules'])


_FRACTION = re.compile(r'^[+-]?(\d*)\.\d')


def bad_number(tok, a):
    """a numeric token written against omitLeadingZero: returns a reason or None"""
    m = _FRACTION.match(tok)
    if not m:
        return None
    if a['omitLeadingZero']:
        return 'leading-zero-kept' if m.group(1) == '0' else None
    return 'leading-zero-omitted' if m.group(1) == '' else None
