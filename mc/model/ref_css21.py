"""Reference for C13: the value grammars of the *simple* CSS 2.1 properties, and the value menu.

Written from the CSS 2.1 Recommendation (7 June 2011): Appendix F "Full property table", section 4.3
"Values" (integers, numbers, lengths, percentages, URIs, colours), section 4.1.1 / Appendix G (tokens) and
section 18.2 (system colours).  Nothing here is derived from cssutils/profiles.py.

A property is *simple* when its Appendix-F grammar is `kw1 | kw2 | ... | inherit`, optionally with single
<length> / <percentage> / <number> / <integer> / <color> / <uri> alternatives (no juxtaposition, no `||`, no
lists).  `verdict(name, text)` answers True / False, or None where the specification restricts the value by
prose only (the don't-care set, see DONT_CARE).
"""
import re

# ----------------------------------------------------------------------------------------
# 4.3 value types

LENGTH_UNITS = ('em', 'ex', 'px', 'in', 'cm', 'mm', 'pt', 'pc')
ANGLE_UNITS = ('deg', 'grad', 'rad')
TIME_UNITS = ('ms', 's')
FREQ_UNITS = ('hz', 'khz')

COLOR_KEYWORDS = (  # 4.3.6, 17 keywords
    'aqua black blue fuchsia gray green lime maroon navy olive orange purple red silver teal white yellow'
).split()
SYSTEM_COLORS = (  # 18.2
    'ActiveBorder ActiveCaption AppWorkspace Background ButtonFace ButtonHighlight ButtonShadow ButtonText '
    'CaptionText GrayText Highlight HighlightText InactiveBorder InactiveCaption InactiveCaptionText '
    'InfoBackground InfoText Menu MenuText Scrollbar ThreeDDarkShadow ThreeDFace ThreeDHighlight '
    'ThreeDLightShadow ThreeDShadow Window WindowFrame WindowText'
).split()
_SYSTEM_LOW = {c.lower() for c in SYSTEM_COLORS}
_COLOR_IDENTS = set(COLOR_KEYWORDS) | _SYSTEM_LOW

_NUM = r'(?:[0-9]+|[0-9]*\.[0-9]+)'
_RE_INT = re.compile(r'([+-]?)([0-9]+)\Z')
_RE_NUM = re.compile(r'([+-]?)(' + _NUM + r')\Z')
_RE_DIM = re.compile(r'([+-]?)(' + _NUM + r')([a-zA-Z][a-zA-Z0-9]*)\Z')
_RE_PCT = re.compile(r'([+-]?)(' + _NUM + r')%\Z')
_RE_IDENT = re.compile(r'-?[_a-zA-Z][_a-zA-Z0-9-]*\Z')
_RE_HASH = re.compile(r'#([0-9a-zA-Z_-]+)\Z')
_RE_FUNC = re.compile(r'([a-zA-Z-]+)\((.*)\)\Z', re.S)
_WS = ' \t\r\n\f'
_RE_URI = re.compile(
    r'url\([ \t\r\n\f]*(?:"(?:[^"\\\n]|\\.)*"|\'(?:[^\'\\\n]|\\.)*\'|(?:[!#$%&*-\[\]-~]|[^\x00-\x7f]|\\.)*)[ \t\r\n\f]*\)\Z', re.I
)
_RE_STRING = re.compile(r'(?:"(?:[^"\\\n]|\\.)*"|\'(?:[^\'\\\n]|\\.)*\')\Z')


def _sign_class(base, sign, zero):
    if zero:
        return base + ('-zero' if not sign else '-zero-signed')
    return base + {'': '', '+': '+', '-': '-'}[sign]


def classify(text):
    """(kind, info) of one canonical value text.  kind is the *class* used in signatures."""
    m = _RE_INT.match(text)
    if m:
        zero = int(m.group(2)) == 0
        return _sign_class('int', m.group(1), zero), {'type': 'integer', 'sign': m.group(1), 'zero': zero, 'digits': m.group(2)}
    m = _RE_NUM.match(text)
    if m:
        val = float(m.group(2))
        kind = 'num'
        if val == int(val):
            kind = 'num-integral'  # 1.0, 0.0: a <number> whose value is integral but which is not an <integer>
        return _sign_class(kind, m.group(1), val == 0), {'type': 'number', 'sign': m.group(1), 'zero': val == 0}
    m = _RE_PCT.match(text)
    if m:
        zero = float(m.group(2)) == 0
        return _sign_class('pct', m.group(1), zero), {'type': 'percentage', 'sign': m.group(1), 'zero': zero}
    m = _RE_DIM.match(text)
    if m:
        unit = m.group(3).lower()
        zero = float(m.group(2)) == 0
        info = {'sign': m.group(1), 'zero': zero, 'unit': unit}
        if unit in LENGTH_UNITS:
            info['type'] = 'length'
            return _sign_class('len', m.group(1), zero), info
        info['type'] = 'dimension'
        for nm, units in (('angle', ANGLE_UNITS), ('time', TIME_UNITS), ('freq', FREQ_UNITS)):
            if unit in units:
                return nm, info
        return 'dim-other-unit', info
    if _RE_IDENT.match(text):
        low = text.lower()
        kind = 'syscolor' if low in _SYSTEM_LOW else ('color-keyword' if low in COLOR_KEYWORDS else 'keyword')
        return kind, {'type': 'ident', 'ident': low}
    m = _RE_HASH.match(text)
    if m:
        h = m.group(1)
        if len(h) in (3, 6) and all(c in '0123456789abcdefABCDEF' for c in h):
            return 'hex%d' % len(h), {'type': 'color'}
        return 'hex-bad', {'type': 'other'}
    if _RE_URI.match(text):
        inner = text[4:-1].strip(_WS)
        if inner in ('', '""', "''"):
            return 'uri-empty', {'type': 'uri', 'empty': True}
        return 'uri', {'type': 'uri', 'empty': False}
    if _RE_STRING.match(text):
        return 'string', {'type': 'string'}
    m = _RE_FUNC.match(text)
    if m and '(' not in m.group(2) and ')' not in m.group(2):
        fn = m.group(1).lower()
        args = [a.strip(_WS) for a in m.group(2).split(',')]
        if fn == 'rgb':
            if len(args) == 3 and all(_RE_INT.match(a) for a in args):
                return 'rgb-int', {'type': 'color'}
            if len(args) == 3 and all(_RE_PCT.match(a) for a in args):
                return 'rgb-pct', {'type': 'color'}
            return 'rgb-bad', {'type': 'other'}
        if fn in ('rgba', 'hsl', 'hsla'):
            return 'func-css3color', {'type': 'other', 'fn': fn, 'args': args}
        return 'func-other', {'type': 'other', 'fn': fn}
    if any(c in text for c in _WS) or ',' in text or '/' in text:
        return 'multi', {'type': 'other'}
    return 'other', {'type': 'other'}


# ----------------------------------------------------------------------------------------
# Appendix F, simple properties.   name -> (keywords, types, flags)
# flags:  'nonneg'  negative values are illegal (prose)         -> negative numbers are don't-care
#         'pos'     only positive / 0..100 / other prose range  -> all non-"ordinary positive" numbers don't-care

_BORDER_STYLE = 'none hidden dotted dashed solid double groove ridge inset outset'
_BORDER_WIDTH = 'thin medium thick'


def _p(keywords='', types='', flags=''):
    return (tuple(keywords.split()), frozenset(types.split()), frozenset(flags.split()))


SIMPLE = {
    'background-attachment': _p('scroll fixed'),
    'background-color': _p('transparent', 'color'),
    'background-image': _p('none', 'uri'),
    'background-repeat': _p('repeat repeat-x repeat-y no-repeat'),
    'border-collapse': _p('collapse separate'),
    'bottom': _p('auto', 'length percentage'),
    'caption-side': _p('top bottom'),
    'clear': _p('none left right both'),
    'color': _p('', 'color'),
    'cue-after': _p('none', 'uri'),
    'cue-before': _p('none', 'uri'),
    # [ [<uri> ,]* keyword ]: for the single-component values of the menu this is the keyword list
    'cursor': _p('auto crosshair default pointer move e-resize ne-resize nw-resize n-resize se-resize sw-resize s-resize w-resize text wait help progress'),
    'direction': _p('ltr rtl'),
    'display': _p(
        'inline block list-item inline-block table inline-table table-row-group table-header-group '
        'table-footer-group table-row table-column-group table-column table-cell table-caption none'
    ),
    'empty-cells': _p('show hide'),
    'float': _p('left right none'),
    'font-size': _p('xx-small x-small small medium large x-large xx-large larger smaller', 'length percentage', 'nonneg'),
    'font-style': _p('normal italic oblique'),
    'font-variant': _p('normal small-caps'),
    'font-weight': _p('normal bold bolder lighter 100 200 300 400 500 600 700 800 900'),
    'height': _p('auto', 'length percentage', 'nonneg'),
    'left': _p('auto', 'length percentage'),
    'letter-spacing': _p('normal', 'length'),
    'line-height': _p('normal', 'number length percentage', 'nonneg'),
    'list-style-image': _p('none', 'uri'),
    'list-style-position': _p('inside outside'),
    'list-style-type': _p(
        'disc circle square decimal decimal-leading-zero lower-roman upper-roman lower-greek lower-latin '
        'upper-latin armenian georgian lower-alpha upper-alpha none'
    ),
    'max-height': _p('none', 'length percentage', 'nonneg'),
    'max-width': _p('none', 'length percentage', 'nonneg'),
    'min-height': _p('', 'length percentage', 'nonneg'),
    'min-width': _p('', 'length percentage', 'nonneg'),
    'orphans': _p('', 'integer', 'pos'),
    'outline-color': _p('invert', 'color'),
    'outline-style': _p('none dotted dashed solid double groove ridge inset outset'),  # <border-style> without hidden
    'outline-width': _p(_BORDER_WIDTH, 'length', 'nonneg'),
    'overflow': _p('visible hidden scroll auto'),
    'page-break-after': _p('auto always avoid left right'),
    'page-break-before': _p('auto always avoid left right'),
    'page-break-inside': _p('avoid auto'),
    'pitch-range': _p('', 'number', 'pos'),
    'position': _p('static relative absolute fixed'),
    'richness': _p('', 'number', 'pos'),
    'right': _p('auto', 'length percentage'),
    'speak': _p('normal none spell-out'),
    'speak-header': _p('once always'),
    'speak-numeral': _p('digits continuous'),
    'speak-punctuation': _p('code none'),
    'speech-rate': _p('x-slow slow medium fast x-fast faster slower', 'number', 'pos'),
    'stress': _p('', 'number', 'pos'),
    'table-layout': _p('auto fixed'),
    'text-align': _p('left right center justify'),
    'text-indent': _p('', 'length percentage'),
    'text-transform': _p('capitalize uppercase lowercase none'),
    'top': _p('auto', 'length percentage'),
    'unicode-bidi': _p('normal embed bidi-override'),
    'vertical-align': _p('baseline sub super top text-top middle bottom text-bottom', 'percentage length'),
    'visibility': _p('visible hidden collapse'),
    'volume': _p('silent x-soft soft medium loud x-loud', 'number percentage', 'pos'),
    'white-space': _p('normal pre nowrap pre-wrap pre-line'),
    'widows': _p('', 'integer', 'pos'),
    'width': _p('auto', 'length percentage', 'nonneg'),
    'word-spacing': _p('normal', 'length'),
    'z-index': _p('auto', 'integer'),
}
for _side in ('top', 'right', 'bottom', 'left'):
    SIMPLE['border-%s-color' % _side] = _p('transparent', 'color')
    SIMPLE['border-%s-style' % _side] = _p(_BORDER_STYLE)
    SIMPLE['border-%s-width' % _side] = _p(_BORDER_WIDTH, 'length', 'nonneg')
    SIMPLE['margin-%s' % _side] = _p('auto', 'length percentage')
    SIMPLE['padding-%s' % _side] = _p('', 'length percentage', 'nonneg')

DONT_CARE = [
    'negative <length>/<percentage>/<number> for properties where CSS 2.1 says in prose "negative values are illegal": '
    'width height min-/max-width/height padding-* border-*-width outline-width font-size line-height',
    'any number that is not an unsigned positive one for properties with a prose range: orphans widows (positive integers), '
    'pitch-range richness stress (0..100), speech-rate (words per minute), volume (clipped / relative)',
    'display: run-in (in the 2009 Candidate Recommendation, removed from the 2011 Recommendation)',
    'an empty URI (url(), url("")): lexically a URI token, its meaning is left to the URI reference rules',
    'a number with an explicit plus sign where the property lists the numbers as keywords (font-weight: +400) - not in the menu',
]


def verdict(name, text):
    """True / False by the CSS 2.1 grammar of the simple property `name`; None = don't care. Names not in SIMPLE -> KeyError."""
    keywords, types, flags = SIMPLE[name]
    kind, info = classify(text)
    t = info['type']
    if name == 'cursor' and ',' in text:
        # [ [<uri> ,]* keyword ]
        parts = [p.strip(_WS) for p in text.split(',')]
        if all(classify(p)[0] == 'uri' for p in parts[:-1]) and classify(parts[-1])[1].get('ident') in keywords:
            return True
        return False
    if t == 'ident':
        ident = info['ident']
        if name == 'display' and ident == 'run-in':
            return None
        if ident == 'inherit' or ident in keywords:
            return True
        if 'color' in types and ident in _COLOR_IDENTS:
            return True
        return False
    if t in ('integer', 'number', 'percentage', 'length'):
        if text in keywords:  # font-weight: 100 ... 900
            return True
        zero = info['zero']
        if t == 'integer':
            ok = 'integer' in types or 'number' in types or (zero and 'length' in types)
        elif t == 'number':
            ok = 'number' in types or (zero and 'length' in types)  # "after a zero length the unit is optional"
        else:
            ok = t in types
        if not ok:
            return False
        if 'nonneg' in flags and info['sign'] == '-' and not zero:
            return None
        if 'pos' in flags and (info['sign'] or zero):
            return None
        return True
    if t == 'color':
        return 'color' in types
    if t == 'uri':
        if 'uri' in types:
            return None if info['empty'] else True
        return False
    return False  # dimensions with other units, strings, functions, several components, junk


# ----------------------------------------------------------------------------------------
# What later modules that cssutils also registers add to these properties (CSS3 Color, CSS3 Basic UI).
# Only used as a don't-care set when *all* registered profiles are active.

X11_ONLY = (  # CSS3 Color 4.3 extended keywords that are not CSS 2.1 keywords (those in the menu, plus neighbours)
    'aliceblue antiquewhite aquamarine azure beige bisque blanchedalmond blueviolet brown burlywood cadetblue chartreuse '
    'chocolate coral cornflowerblue cornsilk crimson cyan darkblue darkcyan darkgoldenrod darkgray darkgreen darkgrey '
    'darkkhaki darkmagenta darkolivegreen darkorange darkorchid darkred darksalmon darkseagreen darkslateblue '
    'darkslategray darkslategrey darkturquoise darkviolet deeppink deepskyblue dimgray dimgrey dodgerblue firebrick '
    'floralwhite forestgreen gainsboro ghostwhite gold goldenrod greenyellow grey honeydew hotpink indianred indigo ivory '
    'khaki lavender lavenderblush lawngreen lemonchiffon lightblue lightcoral lightcyan lightgoldenrodyellow lightgray '
    'lightgreen lightgrey lightpink lightsalmon lightseagreen lightskyblue lightslategray lightslategrey lightsteelblue '
    'lightyellow limegreen linen magenta mediumaquamarine mediumblue mediumorchid mediumpurple mediumseagreen '
    'mediumslateblue mediumspringgreen mediumturquoise mediumvioletred midnightblue mintcream mistyrose moccasin '
    'navajowhite oldlace olivedrab orangered orchid palegoldenrod palegreen paleturquoise palevioletred papayawhip '
    'peachpuff peru pink plum powderblue rosybrown royalblue saddlebrown salmon sandybrown seagreen seashell sienna '
    'skyblue slateblue slategray slategrey snow springgreen steelblue tan thistle tomato turquoise violet wheat '
    'whitesmoke yellowgreen'
).split()
_CSS3_CURSOR = (
    'none context-menu cell vertical-text alias copy no-drop not-allowed ew-resize ns-resize nesw-resize nwse-resize '
    'col-resize row-resize all-scroll zoom-in zoom-out grab grabbing'
).split()


def css3_extension(name, text):
    """True if a later module registered by cssutils (CSS3 Color / Basic UI) admits `text` for the simple property
    `name` although CSS 2.1 does not.  Written from those modules' property definitions."""
    keywords, types, flags = SIMPLE[name]
    kind, info = classify(text)
    if 'color' in types:
        if kind == 'func-css3color':
            fn, args = info['fn'], info['args']
            n = 4 if fn.endswith('a') else 3
            if len(args) != n or not all(_RE_NUM.match(a) or _RE_PCT.match(a) for a in args):
                return False
            return True  # number/percentage mix is judged by the CSS3 grammar, not by this reference
        if info['type'] == 'ident' and info['ident'] in X11_ONLY + ['currentcolor', 'transparent']:
            return True
    if name == 'cursor' and info['type'] == 'ident' and info['ident'] in _CSS3_CURSOR:
        return True
    if name == 'cursor' and ',' in text:
        # CSS3 UI: [ <uri> [<x> <y>]? , ]* keyword
        parts = [p.strip(_WS) for p in text.split(',')]
        last = classify(parts[-1])[1].get('ident')
        ok = last in keywords or last in _CSS3_CURSOR
        for p in parts[:-1]:
            bits = p.split()
            ok = ok and bits and classify(bits[0])[0] == 'uri' and (len(bits) == 1 or (len(bits) == 3 and all(_RE_NUM.match(b) for b in bits[1:])))
        return bool(ok)
    if name == 'outline-style' and info['type'] == 'ident' and info['ident'] == 'auto':
        return True
    if name == 'overflow':
        # CSS3 Box: [ visible | hidden | scroll | auto ]{1,2}
        bits = text.split()
        if len(bits) == 2 and all(b.lower() in keywords for b in bits):
            return True
    return False


# ----------------------------------------------------------------------------------------
# The value menu.  An entry: dict(text=canonical text, toks=[(text, flag)], gaps=[...], cls=class)
#   flag 'k' = case-insensitive token (ident, unit, function name, hex digits, url( )), 'l' = literal (strings, URL content)
#   gaps[i] between toks[i] and toks[i+1]: '' = the grammar has S* there, ' ' = white space separates two components

_TOK = re.compile(
    r'''(?P<s>[ ]+)|(?P<str>"[^"]*"|'[^']*')|(?P<url>url\([^)]*\))|(?P<fn>[a-zA-Z-]+\()|(?P<hash>\#[0-9a-zA-Z]*)'''
    r'''|(?P<urange>U\+[0-9a-fA-F?-]+)|(?P<num>[+-]?(?:[0-9]*\.[0-9]+|[0-9]+)(?:%|[a-zA-Z][a-zA-Z0-9]*)?)|(?P<id>-?[_a-zA-Z][_a-zA-Z0-9-]*)|(?P<ch>.)''',
    re.S,
)


def tokens_of(text):
    toks, gaps = [], []
    pending = None
    for m in _TOK.finditer(text):
        if m.lastgroup == 's':
            pending = ' '
            continue
        if toks:
            gaps.append(pending or '')
        pending = None
        flag = 'l' if m.lastgroup == 'str' else ('u' if m.lastgroup == 'url' else 'k')
        toks.append((m.group(0), flag, m.lastgroup))
    assert ''.join(t[0] + (gaps[i] if i < len(gaps) else '') for i, t in enumerate(toks)) == text, text
    return toks, gaps


def all_keywords():
    seen = []
    for name in sorted(SIMPLE):
        for k in SIMPLE[name][0]:
            if k not in seen:
                seen.append(k)
    # keywords of the non-simple CSS 2.1 properties (other properties' grammars)
    for k in (
        'inherit behind left-side far-left center-left center-right far-right right-side leftwards rightwards below level above '
        'higher lower underline overline line-through blink caption icon menu message-box small-caption status-bar serif '
        'sans-serif cursive fantasy monospace open-quote close-quote no-open-quote no-close-quote mix x-low low high x-high '
        'male female child'
    ).split():
        if k not in seen:
            seen.append(k)
    return seen


NUMERIC = (
    '0 1 -1 +1 2 100 400 1000 1.5 -1.5 +1.5 .5 0.5 1.0 0.0 -0 '
    '1px -1px +1px 1.5px .5px -.5px 1.0px 0px 0em -0px 1em 1ex 1in 1cm 1mm 1pt 1pc 12pt 2.54cm '
    '1% -1% +1% 0% 50.5% 100% .5% 1.0% '
    '1deg 90deg 1rad 1grad 1s 1ms 1hz 1khz 0deg 0s 1rem 1vw 1ch 1e3 1pxx 1p 1x'
).split()
COLORS = (
    COLOR_KEYWORDS
    + ['transparent', 'invert', 'currentcolor', 'aliceblue', 'grey', 'darkgrey', 'cyan', 'rebeccapurple']
    + [
        '#f00', '#ff0000', '#abc', '#a1b2c3', '#000', '#ff', '#ffff', '#fffff', '#fffffff', '#ggg', '#',
        'rgb(255,0,0)', 'rgb(1,2,3)', 'rgb(100%,0%,0%)', 'rgb(-1,300,0)', 'rgb(110%,0%,0%)', 'rgb(1.5%,0%,0%)', 'rgb(+1,2,3)',
        'rgb(1,2)', 'rgb(1,2,3,4)', 'rgb(1%,2,3)', 'rgb(1.5,2,3)', 'rgb(1 2 3)', 'rgb()', 'rgb(a,b,c)',
        'rgba(1,2,3,.5)', 'rgba(1%,2%,3%,1)', 'hsl(1,2%,3%)', 'hsla(1,2%,3%,.5)', 'rgba(1,2,3)', 'hsl(1,2,3)',
    ]
)  # fmt: skip
SYSTEM_QUICK = ['ButtonFace', 'WindowText', 'InfoBackground', 'Menu', 'ThreeDDarkShadow', 'Background']
URIS = ['url(x)', 'url("x")', "url('x')", 'url(a/b.png)', 'url(http://e.org/a?b=c#d)', 'url()', 'url("")', 'url(red)']
STRINGS = ['"x"', "'x'", '""', '"a b"', '"red"', '"1px"']
OTHER = [
    # near misses of simple values
    '1 px', 'redd', 're d', 'red1', '-red', 'lef', 'inheri', 'initial', 'inherit inherit', 'auto auto', 'none none', '1 %', '- 1px', '1,2', '1/2', 'x',
    'red blue', '0 0', 'url(x) y', 'red, blue',
    # values of other properties' grammars
    '1px 2px', '1px 2px 3px', '1px 2px 3px 4px', '1px 2px 3px 4px 5px', '1px solid red', 'solid', 'thin solid', 'left top', 'top left', '50% 50%',
    'bold 12px serif', '12px/1.5 a, b', 'a, b', 'a b', '"a", serif', '"a" "b"', '"a" "b" "c"', 'underline blink', 'underline', 'x 1', 'x 1 y 2', 'x y',
    'url(x) format("y")', 'local(a)', 'local("a")', 'url(x), url(y)', 'U+26', 'U+0-7F, U+4??', 'a4 landscape', 'a4', 'landscape', '1in 2in',
    'behind left', 'left behind', 'url(x), auto', 'url(x) 1 2, pointer', 'url(x) mix repeat', 'scroll url(x) red no-repeat 0 0',
    'inside url(x) disc', 'visible hidden', 'attr(x)', 'counter(x)', 'counter(x, disc)', '"a" counter(x) "b"', 'open-quote "a"',
    'rect(1px,2px,3px,4px)', 'rect(1px 2px 3px 4px)', 'rect(auto,auto,auto,auto)', 'calc(1px + 2px)', 'inset 1px 2px red', '1px 2px red', '1px 2px 3px red, 1px 1px blue',
    'ultra-condensed', 'wider', 'content-box', 'both', 'horizontal', 'fill', 'meet', '1px / 2px', '1px 2px / 3px',
]  # fmt: skip


def menu(tier='quick'):
    texts = []
    for t in all_keywords() + NUMERIC + COLORS + (SYSTEM_QUICK if tier == 'quick' else SYSTEM_COLORS) + URIS + STRINGS + OTHER:
        if t not in texts:
            texts.append(t)
    if tier != 'quick':
        for t in ('0.50', '00', '+0', '010px', '1.50em', '-100%', '#ABCDEF', '#AbC', 'rgb( 0 , 0 , 0 )', 'rgb(0%,0%,0%)', 'url( x )', 'goldenrod', 'tan'):
            if t not in texts:
                texts.append(t)
    out = []
    for t in texts:
        toks, gaps = tokens_of(t)
        out.append({'text': t, 'toks': toks, 'gaps': gaps, 'cls': classify(t)[0]})
    return out


UNKNOWN_NAMES = ['foo', 'colour', 'widht', 'x-color', '-moz-border-radius', '-webkit-box-shadow', 'background-colour', 'font-colour', 'margin-middle', 'zindex']
