"""Reference model of a media list: an ordered set of media types with `all` absorption.

Written from the statement of C17, not from cssutils/stylesheets/medialist.py:

  * a list is a sequence of entries; an entry is either a *simple media type* (one of the ten
    known types, compared case-insensitively, literal spelling kept) or a *query* (anything
    with `not`/`only` or a feature expression);
  * a simple media type is kept once; a list containing the simple type `all` collapses to
    that single entry; the empty list means `all` (it serialises as `all`);
  * appending a type already present moves it to the end; appending to `all` is rejected;
    appending `all` replaces everything; deleting removes exactly that type; deleting an
    absent type is rejected; a malformed medium or text is rejected; a rejected operation
    changes nothing.

The model never parses CSS: media are handed in as abstract tuples by the check
(`('type', literal)`, `('query', canonical_text)` or `None` for a malformed medium).
Decisions the statement leaves open are resolved towards the implementation and are listed in
the ASSUMPTIONS of checks/c17.py (they are marked LENIENCY below).
"""

KNOWN_TYPES = ('all', 'braille', 'handheld', 'print', 'projection', 'speech', 'screen', 'tty', 'tv', 'embossed')


def is_type(m):
    return m is not None and m[0] == 'type'


def tname(m):
    """case-insensitive identity of a simple media type"""
    return m[1].lower()


def is_all(m):
    return is_type(m) and tname(m) == 'all'


def canonical(entries):
    """What a sequence of well-formed media denotes as a list (parse-time canonicalisation)."""
    out, seen = [], set()
    for m in entries:
        if is_all(m):
            return [m]
        if is_type(m):
            if tname(m) in seen:
                continue  # LENIENCY: the first occurrence is the one that is kept
            seen.add(tname(m))
        out.append(m)
    return out


class RefMediaList:
    def __init__(self, entries=()):
        self.entries = canonical(list(entries))

    def copy(self):
        c = RefMediaList()
        c.entries = list(self.entries)
        return c

    # -- observers ---------------------------------------------------------------------
    @property
    def length(self):
        return len(self.entries)

    def text(self):
        return ', '.join(m[1] for m in self.entries) if self.entries else 'all'

    def item(self, i):
        """media type of the i-th entry; None beyond the end"""
        n = len(self.entries)
        if i >= n or i < -n:
            return None
        m = self.entries[i]  # LENIENCY: negative indices count from the end, as for Python sequences
        return m[1] if is_type(m) else ''  # LENIENCY: a query with features has no simple media type: ''

    def has_all(self):
        return any(is_all(m) for m in self.entries)

    def meaning(self):
        """entries with the empty list spelled out as `all` (equality of lists is equality of meanings)"""
        return list(self.entries) if self.entries else [('type', 'all')]

    # -- operations: return True (accepted) / False (rejected, nothing changed) -----------
    def set_text(self, entries):
        """entries: list of media, or None for an empty / malformed text (one malformed member spoils all)"""
        if entries is None or not entries or any(m is None for m in entries):
            return False
        self.entries = canonical(entries)
        return True

    def append(self, m):
        if m is None:
            return False
        if self.has_all():
            return False
        if is_all(m):
            self.entries = [m]
        elif is_type(m):
            self.entries = [e for e in self.entries if not (is_type(e) and tname(e) == tname(m))] + [m]
        else:
            self.entries = self.entries + [m]
        return True

    def delete(self, m):
        """m names a media type; LENIENCY: a query with features is not a type and can never be deleted this way"""
        if not is_type(m):
            return False
        for i, e in enumerate(self.entries):
            if is_type(e) and tname(e) == tname(m):
                del self.entries[i]
                return True
        return False

    def set_item(self, i, m):
        """LENIENCY (statement silent): entry i is replaced in place, then the list invariants are restored:
        `all` absorbs everything, another entry of the same simple type is dropped."""
        if m is None or not (0 <= i < len(self.entries)):
            return False
        if is_all(m):
            self.entries = [m]
            return True
        new = []
        for j, e in enumerate(self.entries):
            if j == i:
                new.append(m)
            elif is_type(m) and is_type(e) and tname(e) == tname(m):
                continue
            else:
                new.append(e)
        self.entries = new
        return True
